#!/venv/bin/python
"""tools/seedcheck.py <name> <patch.diff> <demo.py> [--baseline] [--checks C01,C02,...] [--tier quick] [--seeds 0,1]
Confirm a seeded change in a scratch copy of /repo (never in /repo itself) and run registered checks against it:
  1. demo.py passes on the unchanged copy, 2. patch applies, 3. demo.py fails with the patch,
  4. (--baseline) the pinned baseline still passes, 5. each listed check is run with VERIF_REPO=<copy>.
Prints a JSON summary; the scratch copy is removed."""
import json, os, shutil, subprocess, sys, tempfile, time
a = sys.argv[1:]
name, patch, demo = a[0], os.path.abspath(a[1]), os.path.abspath(a[2])
opts = a[3:]
def opt(k, d=None):
  return opts[opts.index(k) + 1] if k in opts else d
checks = [c for c in (opt('--checks', '') or '').split(',') if c]
seeds = [s for s in (opt('--seeds', '0') or '0').split(',')]
tier = opt('--tier', 'quick')
tmp = tempfile.mkdtemp(prefix='seed_', dir='/tmp')
out = dict(name=name, checks={})
try:
  dst = os.path.join(tmp, 'repo')
  commit = opt('--commit')
  if commit:      # an older commit of /repo instead of its working tree
    os.makedirs(dst)
    subprocess.run('git -C /repo archive %s | tar -x -C %s' % (commit, dst), shell=True, check=True)
    out['base_commit'] = commit
  else:
    shutil.copytree('/repo', dst, ignore=shutil.ignore_patterns('.git', '__pycache__', 'doc', 'bench', 'examples'))
  env = dict(os.environ, PYTHONPATH=dst, OMP_NUM_THREADS='1', PYTHONDONTWRITEBYTECODE='1')
  # the script's own directory is sys.path[0]; assertions that pin the sub-agent's worktree path are neutralised
  import re
  src = open(demo).read()
  sys.path.insert(0, os.path.dirname(os.path.abspath(__file__)))
  import stripassert
  src = stripassert.strip(src)
  open(os.path.join(dst, 'demo_seed.py'), 'w').write(src)
  def run_demo():
    r = subprocess.run(['/venv/bin/python', 'demo_seed.py'], cwd=dst, env=env, stdout=subprocess.PIPE, stderr=subprocess.STDOUT, text=True)
    return r.returncode, r.stdout[-400:]
  rc0, o0 = run_demo()
  out['demo_without_change'] = 'pass' if rc0 == 0 else 'FAIL rc=%d: %s' % (rc0, o0)
  r = subprocess.run(['patch', '-p1', '--fuzz=3', '-i', patch], cwd=dst, stdout=subprocess.PIPE, stderr=subprocess.STDOUT, text=True)
  out['patch_applies'] = r.returncode == 0
  if r.returncode != 0:
    out['patch_output'] = r.stdout[-400:]
  rc1, o1 = run_demo()
  out['demo_with_change'] = 'fails (rc=%d)' % rc1 if rc1 != 0 else 'PASSES (change not demonstrated)'
  out['demo_output'] = o1[-300:]
  if '--baseline' in opts:
    r = subprocess.run(['/venv/bin/python', '/verif/tools/baseline.py', dst, '-n', '8'], stdout=subprocess.PIPE, stderr=subprocess.STDOUT, text=True)
    out['baseline'] = r.stdout.strip().splitlines()[-1] if r.returncode == 0 else 'FAILS: ' + r.stdout[-600:]
  for c in checks:
    for s in seeds:
      t0 = time.time()
      e2 = dict(os.environ, VERIF_REPO=dst, VERIF_SEED=s, VERIF_NO_SHRINK='1')
      r = subprocess.run(['./check', c, tier], cwd='/verif', env=e2, stdout=subprocess.PIPE, stderr=subprocess.STDOUT, text=True)
      lines = [l for l in r.stdout.splitlines() if l.startswith('  C') or 'VIOLATION' in l or 'HARNESS' in l]
      out['checks']['%s@%s' % (c, s)] = dict(exit=r.returncode, wall=round(time.time() - t0, 1), lines=[l[:220] for l in lines[:4]])
finally:
  shutil.rmtree(tmp, ignore_errors=True)
print(json.dumps(out, indent=1))
