#!/venv/bin/python
"""Run the repository's pinned baseline (guard OFF) and compare with /root/.vp/BASELINE.json.
usage: tools/baseline.py [repo_dir] [-n N]   exit 0 iff every stable_pass test passes."""
import json, os, subprocess, sys, tempfile, xml.etree.ElementTree as ET
repo = '/repo'; nproc = '8'
args = sys.argv[1:]
if args and not args[0].startswith('-'):
    repo = args.pop(0)
if args[:1] == ['-n']:
    nproc = args[1]
base = json.load(open('/root/.vp/BASELINE.json'))
want = set(base['stable_pass'])
fd, out = tempfile.mkstemp(suffix='.xml'); os.close(fd)
env = dict(os.environ); env.pop('METRIC_LEARN_VERIF', None)
for _k in ('OMP_NUM_THREADS', 'OPENBLAS_NUM_THREADS', 'MKL_NUM_THREADS'):
    env.setdefault(_k, '1')     # several baselines may run side by side: no BLAS oversubscription
cmd = ['/venv/bin/python', '-m', 'pytest', '-q', '-p', 'no:cacheprovider', '--timeout=900',
       '--continue-on-collection-errors', '-n', nproc, '--junitxml=' + out]
r = subprocess.run(cmd, cwd=repo, env=env, stdout=subprocess.PIPE, stderr=subprocess.STDOUT, text=True)
print(r.stdout[-600:])
passed = set()
for tc in ET.parse(out).getroot().iter('testcase'):
    if not any(c.tag in ('failure', 'error', 'skipped') for c in tc):
        passed.add(tc.get('classname') + '::' + tc.get('name'))
os.unlink(out)
missing = sorted(want - passed)
print('baseline stable_pass=%d passed_now=%d missing=%d' % (len(want), len(passed), len(missing)))
for m in missing[:40]:
    print('  MISSING', m)
sys.exit(1 if missing else 0)
