#!/bin/bash
# tools/at_commit.sh <commit> <command...>: run a command with VERIF_REPO pointing at a scratch
# worktree of /repo at <commit> (removed afterwards).
c="$1"; shift
wt="/tmp/wt_$$"
git -C /repo worktree add --detach -q "$wt" "$c" || exit 2
VERIF_REPO="$wt" "$@"; rc=$?
git -C /repo worktree remove --force "$wt"
exit $rc
