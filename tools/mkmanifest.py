#!/venv/bin/python
"""Regenerate MANIFEST.json from the table below (run from /verif)."""
import json, os, sys
here = os.path.dirname(os.path.dirname(os.path.abspath(__file__)))
props = [json.loads(l) for l in open(os.path.join(here, 'properties.jsonl'))]

# id -> (technique, level text, level note, design section)
CLAIMED = {
 'C01': ('Hypothesis query triples (forced corner classes) on generated fitted models vs metric axioms with derived rounding slack',
         'Exploration: for each of the 17 estimators, generated fitted models (sampled documented options, generated datasets) x generated query triples from forced classes (duplicates, collinear, 1e+-100 magnitudes, one-ulp, null-space of low-rank L); identities exact, triangle inequality with a derived slack; both entry points.',
         'Sampled, not exhaustive; slack 64 eps sigma_max(L) sqrt(d) sum|diffs| + 1e-150.', '4/C01'),
 'C02': ('Hypothesis differential between all views of the metric and a long-double reference ||L(u-v)||',
         'Exploration: generated models x query pools x representations; seven views and M = L^T L compared with a rounding bound derived from sigma_max(L).',
         'Long-double reference evaluation by the harness; tolerance 64 eps sigma_max sqrt(d) scale; near-duplicate pairs, float16 / float32 / integer representations and mixed-dtype calls of the metric function.', '4/C02'),
 'C03': ('exhaustive enumeration of the documented option product per Hypothesis-drawn dataset, postcondition oracle',
         'Exploration with an exhaustively enumerated finite sub-space: every documented option combination of every estimator is fitted on several generated well-formed datasets and the shape/dtype/PSD/n_features_in_/transform postconditions are checked.',
         'Datasets are sampled; SDML RuntimeError is a specified outcome; one recorded known finding (ITML on large-scale data).', '4/C03'),
 'C04': ('Hypothesis tuples with forced ties and threshold-operation histories vs decisions recomputed from pair_distance, which is itself compared with an independent double-precision Mahalanobis distance (float32 / far-scale pools)',
         'Exploration: exact equality of predict/decision_function/score with decisions recomputed from pair_distance, brute-force AUC, threshold histories (set/calibrate/refit), ties and distance==threshold cases forced by the generator.',
         'Decision oracle uses the public pair_distance on same-length batches; the distance oracle is sqrt(|L(x-x\')|^2) in float64 on the same coordinate values.', '4/C04'),
 'C05': ('Hypothesis differential: estimator fed indices+preprocessor vs identical estimator fed formed arrays (bitwise), including refits / recalibrations through one refilled index buffer',
         'Exploration: 17 estimators x 3 preprocessor kinds x 8 index dtypes x all data-taking methods, bitwise differential; call counter for formed data; raising preprocessor -> PreprocessorError.',
         'LFDA compared up to eigenvector sign (ARPACK random start).', '4/C05'),
 'C06': ('exhaustive enumeration of a malformation grammar + Hypothesis-placed malformations + array-like equivalence differential (atheris fuzz target in the thorough tier)',
         'Exploration with an exhaustively enumerated grammar: every (estimator, method, preprocessor, malformation) cell must raise ValueError; generated variants move the bad entry/size; equivalent array-likes (list/int16/int32/int64/Fortran/strided) must give the same model and outputs.',
         'Grammar is finite and listed in vl/props/c06.py; equivalence tolerance 1e-9 (closed form) / 1e-4 (iterative).', '4/C06'),
 'C07': ('Hypothesis-generated label vectors / point sets checked against an independent validity oracle (brute-force k-NN, feasibility count)',
         'Exploration: thousands of generated label vectors (unknown labels, singleton classes, ties) per constraint kind, each output checked in both directions (soundness of every constraint, completeness of counts/combinations, determinism).',
         'Trusts numpy and the harness oracle; neighbour ties are accepted in any order.', '4/C07'),
 'C16': ('Hypothesis-drawn distance multisets (exact ties) vs brute-force optimum over all realisable cut-offs',
         'Exploration: calibrated threshold must attain the brute-force optimum of the criterion over reject-all and every distinct distance, computed from integer counts; invalid parameters rejected before fitting.',
         '1e-9 guard band on min_rate comparisons.', '4/C16'),
 'C18': ('exhaustive enumeration of (estimator, parameter, value kind) cells + Hypothesis set_params/clone/pickle/fit sequences against a dict model',
         'Exploration with an exhaustively enumerated cell space: identity of stored parameters, defaults of the others, clone/pickle equality, deprecated aliases, NotFittedError for every method; generated histories compared with Est(**final_params).fit.',
         'Value kinds are representatives per parameter; sequences also set array-valued init / prior / basis as plain, Fortran, float32, integer, read-only and ndarray-subclass arrays whose bytes are re-checked after every step.', '4/C18'),
 'C20': ('Hypothesis-drawn spectra with the asserted clause chosen from the computed spectrum; priors/inits observed through zero-update fits and compared with an independent construction',
         'Exploration: thousands of symmetric matrices per run (every rank, near-PSD inside/outside tolerance, indefinite, 14 decades) through components_from_metric with L^T L = M / NonPSDError / ValueError oracles; prior and init options observed on fitted models that perform no update (LSML tol=1e10, ITML with inactive bounds, MMC diagonal max_iter=0, LMNN max_iter=0, NCA/MLKR with zero L-BFGS iterations).',
         'A boundary band around the tolerance is not asserted; pca/lda compared up to row sign.', '4/C20'),
 'C08': ('Hypothesis differential (supervised vs base learner on helper-derived constraints, same seed) + metamorphic relation (moving unlabeled points)',
         'Exploration: the six *_Supervised estimators with generated hyper-parameters, seeds and label vectors with -1 holes; M_sup must equal M_base (1e-10) and must not change when unlabeled points are moved.',
         'Constraints come from the public helper, whose soundness is C07; lda basis excluded from the metamorphic clause.', '4/C08'),
 'C09': ('Hypothesis datasets / chunk and class layouts vs slow reference constructions (two-pass covariance + Penrose conditions, within-chunk covariance + generalised eigenvalues, O(n^2) pairwise LFDA scatter)',
         'Exploration: Covariance, RCA, LFDA on generated layouts (rank-deficient data, -1 chunks, singleton chunks, classes smaller than k) compared with independent explicit-loop evaluations of the documented formulas.',
         'LFDA weighted scaling asserted up to a common eigenvalue shift (DESIGN section 5).', '4/C09'),
 'C10': ('captured optimiser objective (rebinding scipy minimize / wrapping LMNN._loss_grad) vs explicit-loop documented objective, analytic derivative and central differences at Hypothesis-generated L',
         'Exploration: NCA, MLKR, LMNN value and gradient at generated transformations (incl. low rank), descent, accepted-iterate monotonicity from the verbose trace, zero-iteration initialisation.',
         'Evaluation points are sampled; finite differences only away from hinge kinks; one LMNN shard with a class of 513-560 members uses a vectorised evaluation of the same documented objective.', '4/C10'),
 'C11': ('per-instance KKT certificate from frame-observed dual variables on Hypothesis-generated pair sets / priors / bounds / budgets',
         'Exploration: ITML and ITML_Supervised; stationarity of M^-1 - M0^-1, slack stationarity, dual feasibility for every budget; primal feasibility and complementary slackness when converged; prior returned when feasible.',
         'Dual variables read from the _fit frame (sys.setprofile); ill-conditioned projections (kappa > 1e6) are inconclusive / known finding KF1.', '4/C11'),
 'C12': ('own evaluation of the documented LSML objective and gradient, own descent from the returned matrix, weight-scaling metamorphic relation',
         'Exploration: LSML and LSML_Supervised on generated quadruplets, priors, weights (array, list, integer, scaled), tol, max_iter; descent from the prior, stationarity within tol on early stop, no better point found by an independent descent, weights semantics.',
         'tol >= 1e-5; convexity of the objective assumed for the global-minimiser clause; one recorded known finding (KF4: line-search stall before max_iter, decided by a predicate on the harness\' own gradient and objective).', '4/C12'),
 'C13': ('differential against an own ADMM graphical-lasso solver + sub-gradient (KKT) certificate on Hypothesis-generated pairs / priors / balance / sparsity',
         'Exploration: SDML and SDML_Supervised inside the positive-definite margin (objective gap, KKT) and beyond it (RuntimeError or finite PSD matrix only).',
         'scikit-learn non-convergence warnings and reference non-convergence are inconclusive.', '4/C13'),
 'C14': ('postconditions + reference model of the documented projected-gradient scheme on Hypothesis-generated pairs / inits / budgets',
         'Exploration: MMC and MMC_Supervised; PSD, similarity budget within 1%, first projection for max_iter=1, objective not below the first projection, full reference run when branch margins are unambiguous; diagonal variant: non-negative diagonal or ValueError.',
         'Stated precondition decided by the harness\'s own alternating projection (cases outside it are discarded and counted).', '4/C14'),
 'C15': ('reference model: own dual-averaging run with the same RandomState batches, compared at the best checkpoint; captured (basis, weights)',
         'Exploration: SCML and SCML_Supervised on generated triplets, bases (triplet_diffs, lda, array), beta, gamma, batch sizes, checkpoints, seeds; non-negative weights, M = sum w_i b_i b_i^T, low-rank rows and warning, unit-norm generated bases, weights equal to the reference at the lowest-objective checkpoint.',
         '(basis, weights) captured by wrapping _components_from_basis_weights.', '4/C15'),
 'C17': ('Hypothesis stateful testing (RuleBasedStateMachine per estimator) against a fresh-fit reference model and byte-level snapshots',
         'Exploration over call histories: fit on datasets of different dimensionality, set_params, threshold operations, queries, hand-outs, clone, pickle; after every step the estimator must agree with a fresh estimator fitted once, inputs and hyper-parameters keep their bytes/identity, handed-out objects keep their values.',
         'Histories are sampled (30 x 12 steps per estimator quick, 200 x 25 thorough).', '4/C17'),
 'C19': ('Hypothesis metamorphic relations (translation on a dyadic grid, within-tuple swap, permutation, orthogonal map, scaling) with a one-ulp noise-floor control',
         'Exploration: two fits (original / transformed data) compared through learned distances on query pairs and their images, per relation and estimator subset as listed in the property.',
         'Tolerance classes 1e-9 / 1e-6 / 1e-5 plus noise-floor control; neighbour ties excluded.', '4/C19'),
}
PENDING = 'check not built yet in this revision of /verif (planned, see DESIGN.md section 4)'

checks, na = [], []
for p in props:
  pid = p['id']
  if pid in CLAIMED:
    tech, text, note, ref = CLAIMED[pid]
    checks.append(dict(property_id=pid, quick_cmd='./check %s quick' % pid,
                       thorough_cmd='./check %s thorough' % pid,
                       evidence_file='evidence/%s.json' % pid,
                       replay_cmd_template='./check %s quick --replay {path}' % pid,
                       engine='vl', technique=tech,
                       level_claimed=dict(category='exploration', text=text, design_ref=ref),
                       level_note=note))
  else:
    na.append(dict(property_id=pid, reason=PENDING))
man = dict(
  version=1,
  setup_cmd='./setup.sh',
  hooks=dict(guard='METRIC_LEARN_VERIF',
             enable='no source hooks: checks import metric_learn from /repo (VERIF_REPO) and observe internals by wrapping module-level names at run time (vl/observe.py)',
             baseline_off_cmd='cd /repo && /venv/bin/python -m pytest -ra -q -p no:cacheprovider --timeout=900 --continue-on-collection-errors',
             source_commits=[], add_only=True),
  engines=[dict(name='vl', path='vl/', serves_properties=sorted(CLAIMED),
                kind_free_text='Hypothesis property-based tests (plain + stateful), exhaustive enumeration of finite option spaces, atheris fuzz target for C06; sharded over 16 processes by vl/run.py')],
  checks=checks,
  not_applicable=na,
  notes='Every check: ./check <ID> <quick|thorough>; VERIF_SEED selects the run; VERIF_REPO (default /repo) selects the tree under test. Genuine defects found and repaired are listed in known_findings.json (fixed:).')
json.dump(man, open(os.path.join(here, 'MANIFEST.json'), 'w'), indent=1)
print('claimed', len(checks), 'not_applicable', len(na))
