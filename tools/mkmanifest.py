#!/venv/bin/python
"""Regenerate MANIFEST.json from the table below (run from /verif)."""
import json, os, sys
here = os.path.dirname(os.path.dirname(os.path.abspath(__file__)))
props = [json.loads(l) for l in open(os.path.join(here, 'properties.jsonl'))]

# id -> (technique, level text, level note, design section)
CLAIMED = {
 'C07': ('Hypothesis-generated label vectors / point sets checked against an independent validity oracle (brute-force k-NN, feasibility count)',
         'Exploration: thousands of generated label vectors (unknown labels, singleton classes, ties) per constraint kind, each output checked in both directions (soundness of every constraint, completeness of counts/combinations, determinism).',
         'Trusts numpy and the harness oracle; neighbour ties are accepted in any order.', '4/C07'),
}
PENDING = 'check not built yet in this revision of /verif (planned, see DESIGN.md section 4)'

checks, na = [], []
for p in props:
  pid = p['id']
  if pid in CLAIMED:
    tech, text, note, ref = CLAIMED[pid]
    checks.append(dict(property_id=pid, quick_cmd='./check %s quick' % pid,
                       thorough_cmd='./check %s thorough' % pid,
                       evidence_file='evidence/%s.json' % pid,
                       replay_cmd_template='./check %s quick --replay {path}' % pid,
                       engine='vl', technique=tech,
                       level_claimed=dict(category='exploration', text=text, design_ref=ref),
                       level_note=note))
  else:
    na.append(dict(property_id=pid, reason=PENDING))
man = dict(
  version=1,
  setup_cmd='./setup.sh',
  hooks=dict(guard='METRIC_LEARN_VERIF',
             enable='no source hooks: checks import metric_learn from /repo (VERIF_REPO) and observe internals by wrapping module-level names at run time (vl/observe.py)',
             baseline_off_cmd='cd /repo && /venv/bin/python -m pytest -ra -q -p no:cacheprovider --timeout=900 --continue-on-collection-errors',
             source_commits=[], add_only=True),
  engines=[dict(name='vl', path='vl/', serves_properties=sorted(CLAIMED),
                kind_free_text='Hypothesis property-based tests (plain + stateful), exhaustive enumeration of finite option spaces, atheris fuzz target for C06; sharded over 16 processes by vl/run.py')],
  checks=checks,
  not_applicable=na,
  notes='Every check: ./check <ID> <quick|thorough>; VERIF_SEED selects the run; VERIF_REPO (default /repo) selects the tree under test. Genuine defects found and repaired are listed in known_findings.json (fixed:).')
json.dump(man, open(os.path.join(here, 'MANIFEST.json'), 'w'), indent=1)
print('claimed', len(checks), 'not_applicable', len(na))
