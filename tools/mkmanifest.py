#!/venv/bin/python
"""Regenerate MANIFEST.json from the table below (run from /verif)."""
import json, os, sys
here = os.path.dirname(os.path.dirname(os.path.abspath(__file__)))
props = [json.loads(l) for l in open(os.path.join(here, 'properties.jsonl'))]

# id -> (technique, level text, level note, design section)
CLAIMED = {
 'C01': ('Hypothesis query triples (forced corner classes) on generated fitted models vs metric axioms with derived rounding slack',
         'Exploration: for each of the 17 estimators, generated fitted models (sampled documented options, generated datasets) x generated query triples from forced classes (duplicates, collinear, 1e+-100 magnitudes, one-ulp, null-space of low-rank L); identities exact, triangle inequality with a derived slack; both entry points.',
         'Sampled, not exhaustive; slack 64 eps sigma_max(L) sqrt(d) sum|diffs| + 1e-150.', '4/C01'),
 'C02': ('Hypothesis differential between all views of the metric and a long-double reference ||L(u-v)||',
         'Exploration: generated models x query pools x representations; seven views and M = L^T L compared with a rounding bound derived from sigma_max(L).',
         'Long-double reference evaluation by the harness; tolerance 64 eps sigma_max sqrt(d) scale.', '4/C02'),
 'C03': ('exhaustive enumeration of the documented option product per Hypothesis-drawn dataset, postcondition oracle',
         'Exploration with an exhaustively enumerated finite sub-space: every documented option combination of every estimator is fitted on several generated well-formed datasets and the shape/dtype/PSD/n_features_in_/transform postconditions are checked.',
         'Datasets are sampled; SDML RuntimeError is a specified outcome; one recorded known finding (ITML on large-scale data).', '4/C03'),
 'C04': ('Hypothesis tuples with forced ties and threshold-operation histories vs decisions recomputed from public pair_distance',
         'Exploration: exact equality of predict/decision_function/score with decisions recomputed from pair_distance, brute-force AUC, threshold histories (set/calibrate/refit), ties and distance==threshold cases forced by the generator.',
         'Oracle uses the public pair_distance on same-length batches.', '4/C04'),
 'C05': ('Hypothesis differential: estimator fed indices+preprocessor vs identical estimator fed formed arrays (bitwise)',
         'Exploration: 17 estimators x 3 preprocessor kinds x 8 index dtypes x all data-taking methods, bitwise differential; call counter for formed data; raising preprocessor -> PreprocessorError.',
         'LFDA compared up to eigenvector sign (ARPACK random start).', '4/C05'),
 'C06': ('exhaustive enumeration of a malformation grammar + Hypothesis-placed malformations + array-like equivalence differential (atheris fuzz target in the thorough tier)',
         'Exploration with an exhaustively enumerated grammar: every (estimator, method, preprocessor, malformation) cell must raise ValueError; generated variants move the bad entry/size; equivalent array-likes (list/int16/int32/int64/Fortran/strided) must give the same model and outputs.',
         'Grammar is finite and listed in vl/props/c06.py; equivalence tolerance 1e-9 (closed form) / 1e-4 (iterative).', '4/C06'),
 'C07': ('Hypothesis-generated label vectors / point sets checked against an independent validity oracle (brute-force k-NN, feasibility count)',
         'Exploration: thousands of generated label vectors (unknown labels, singleton classes, ties) per constraint kind, each output checked in both directions (soundness of every constraint, completeness of counts/combinations, determinism).',
         'Trusts numpy and the harness oracle; neighbour ties are accepted in any order.', '4/C07'),
 'C16': ('Hypothesis-drawn distance multisets (exact ties) vs brute-force optimum over all realisable cut-offs',
         'Exploration: calibrated threshold must attain the brute-force optimum of the criterion over reject-all and every distinct distance, computed from integer counts; invalid parameters rejected before fitting.',
         '1e-9 guard band on min_rate comparisons.', '4/C16'),
 'C18': ('exhaustive enumeration of (estimator, parameter, value kind) cells + Hypothesis set_params/clone/pickle/fit sequences against a dict model',
         'Exploration with an exhaustively enumerated cell space: identity of stored parameters, defaults of the others, clone/pickle equality, deprecated aliases, NotFittedError for every method; generated histories compared with Est(**final_params).fit.',
         'Value kinds are six representatives per parameter.', '4/C18'),
 'C20': ('Hypothesis-drawn spectra with the asserted clause chosen from the computed spectrum; priors/inits observed through zero-update fits and compared with an independent construction',
         'Exploration: thousands of symmetric matrices per run (every rank, near-PSD inside/outside tolerance, indefinite, 14 decades) through components_from_metric with L^T L = M / NonPSDError / ValueError oracles; prior and init options observed on fitted models that perform no update (LSML tol=1e10, ITML with inactive bounds, MMC diagonal max_iter=0, LMNN max_iter=0, NCA/MLKR with zero L-BFGS iterations).',
         'A boundary band around the tolerance is not asserted; pca/lda compared up to row sign.', '4/C20'),
}
PENDING = 'check not built yet in this revision of /verif (planned, see DESIGN.md section 4)'

checks, na = [], []
for p in props:
  pid = p['id']
  if pid in CLAIMED:
    tech, text, note, ref = CLAIMED[pid]
    checks.append(dict(property_id=pid, quick_cmd='./check %s quick' % pid,
                       thorough_cmd='./check %s thorough' % pid,
                       evidence_file='evidence/%s.json' % pid,
                       replay_cmd_template='./check %s quick --replay {path}' % pid,
                       engine='vl', technique=tech,
                       level_claimed=dict(category='exploration', text=text, design_ref=ref),
                       level_note=note))
  else:
    na.append(dict(property_id=pid, reason=PENDING))
man = dict(
  version=1,
  setup_cmd='./setup.sh',
  hooks=dict(guard='METRIC_LEARN_VERIF',
             enable='no source hooks: checks import metric_learn from /repo (VERIF_REPO) and observe internals by wrapping module-level names at run time (vl/observe.py)',
             baseline_off_cmd='cd /repo && /venv/bin/python -m pytest -ra -q -p no:cacheprovider --timeout=900 --continue-on-collection-errors',
             source_commits=[], add_only=True),
  engines=[dict(name='vl', path='vl/', serves_properties=sorted(CLAIMED),
                kind_free_text='Hypothesis property-based tests (plain + stateful), exhaustive enumeration of finite option spaces, atheris fuzz target for C06; sharded over 16 processes by vl/run.py')],
  checks=checks,
  not_applicable=na,
  notes='Every check: ./check <ID> <quick|thorough>; VERIF_SEED selects the run; VERIF_REPO (default /repo) selects the tree under test. Genuine defects found and repaired are listed in known_findings.json (fixed:).')
json.dump(man, open(os.path.join(here, 'MANIFEST.json'), 'w'), indent=1)
print('claimed', len(checks), 'not_applicable', len(na))
