"""remove `assert ... __file__ ...` statements (worktree-path assertions of sub-agent demos), also multi-line ones"""
import ast


def strip(src):
  try:
    tree = ast.parse(src)
  except SyntaxError:
    return src
  lines = src.split('\n')
  for node in sorted([n for n in ast.walk(tree) if isinstance(n, ast.Assert)], key=lambda n: -n.lineno):
    seg = '\n'.join(lines[node.lineno - 1:node.end_lineno])
    if '__file__' in seg:
      indent = lines[node.lineno - 1][:len(lines[node.lineno - 1]) - len(lines[node.lineno - 1].lstrip())]
      lines[node.lineno - 1:node.end_lineno] = [indent + 'pass  # (worktree-path assertion removed)']
  return '\n'.join(lines)
