#!/venv/bin/python
"""tools/mutant.py FILE OLD NEW -- ./check C10 quick
Copy /repo (working tree) to a scratch dir, replace OLD by NEW (exactly one occurrence) in metric_learn/FILE,
run the command with VERIF_REPO pointing at the copy, delete the copy.  Exit code = command's."""
import os, shutil, subprocess, sys, tempfile
a = sys.argv[1:]
i = a.index('--')
f, old, new = a[:i]
cmd = a[i + 1:]
tmp = tempfile.mkdtemp(prefix='mut_', dir='/tmp')
try:
  dst = os.path.join(tmp, 'repo')
  shutil.copytree('/repo', dst, ignore=shutil.ignore_patterns('.git', '__pycache__', 'doc', 'bench', 'examples'))
  p = os.path.join(dst, 'metric_learn', f)
  s = open(p, newline='').read()
  old2 = old.replace('\\n', '\n')
  new2 = new.replace('\\n', '\n')
  if '\r\n' in s:
    old2, new2 = old2.replace('\n', '\r\n'), new2.replace('\n', '\r\n')
  if s.count(old2) != 1:
    print('MUTANT-ERROR: %d occurrences of %r in %s' % (s.count(old2), old, f)); sys.exit(3)
  open(p, 'w', newline='').write(s.replace(old2, new2))
  env = dict(os.environ, VERIF_REPO=dst, VERIF_NO_SHRINK='1')
  r = subprocess.run(cmd, env=env, cwd='/verif')
  sys.exit(r.returncode)
finally:
  shutil.rmtree(tmp, ignore_errors=True)
