#!/venv/bin/python
"""Regenerate seeded/README.md from seeded/*/meta.json"""
import glob, json, os
rows = []
for f in sorted(glob.glob('/verif/seeded/*/meta.json')):
  m = json.load(open(f))
  caught = sorted({k.split('@')[0] for k, v in m['checks_run'].items() if v['exit'] == 1})
  missed = sorted({k.split('@')[0] for k, v in m['checks_run'].items() if v['exit'] == 0} - set(caught))
  part = sorted({k for k, v in m['checks_run'].items() if v['exit'] == 1})
  rows.append((m['id'], m['breaks_property'], m['needs_to_manifest'], caught, missed, part, m['confirmed']))
out = ['# Seeded changes (from independent sub-agents), confirmed and run against the registered checks', '',
       'Each directory holds `patch.diff` (apply with `git -C /repo apply <file>`, undo with `git -C /repo checkout -- .`; '
       '`tools/seedcheck.py` applies it to a scratch copy instead), `demo.py` (fails with the change, passes without) and '
       '`meta.json` (what was run).  None of these changes is ever committed to /repo.', '',
       '| id | breaks | needs to manifest | caught by | run but not caught | confirmed |', '|---|---|---|---|---|---|']
for sid, prop, needs, caught, missed, part, conf in rows:
  out.append('| %s | %s | %s | %s | %s | demo w/o: %s; demo with: %s; baseline: %s |' % (
      sid, prop, needs.replace('|', '/'), ', '.join(caught) or '-', ', '.join(missed) or '-',
      conf.get('demo_without_change'), conf.get('demo_with_change'), (conf.get('baseline') or '').replace('baseline ', '')))
open('/verif/seeded/README.md', 'w').write('\n'.join(out) + '\n')
print('\n'.join(out[-len(rows):]))
