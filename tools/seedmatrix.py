#!/venv/bin/python
"""Re-run every kept seeded change against the quick check of the property it breaks (seeds 0 and 1) on the
current /repo HEAD, refresh seeded/<id>/meta.json and seeded/README.md.  usage: tools/seedmatrix.py [ids...]"""
import glob, json, os, subprocess, sys
only = set(sys.argv[1:])
for d in sorted(glob.glob('/verif/seeded/C*')):
  sid = os.path.basename(d)
  if only and sid not in only:
    continue
  m = json.load(open(os.path.join(d, 'meta.json')))
  if m.get('obsolete_after'):
    print(sid, 'skipped: valid at', m.get('base_commit'), '- obsolete after', m['obsolete_after'])
    continue
  prop = m['breaks_property']
  extra = sorted({k.split('@')[0] for k in m['checks_run']} - {prop})
  r = subprocess.run(['/verif/tools/seedcheck.py', sid, os.path.join(d, 'patch.diff'), os.path.join(d, 'demo.py'),
                      '--checks', ','.join([prop] + extra), '--seeds', '0,1'], stdout=subprocess.PIPE, stderr=subprocess.STDOUT, text=True)
  txt = r.stdout[r.stdout.index('{'):]
  s = json.loads(txt)
  m['confirmed'].update(demo_without_change=s['demo_without_change'], demo_with_change=s['demo_with_change'], patch_applies=s['patch_applies'])
  m['checks_run'] = {k: dict(exit=v['exit'], first=v['lines'][:2]) for k, v in s['checks'].items()}
  json.dump(m, open(os.path.join(d, 'meta.json'), 'w'), indent=1)
  print(sid, s['patch_applies'], s['demo_without_change'][:20], '|', s['demo_with_change'][:20], '|', {k: v['exit'] for k, v in s['checks'].items()}, flush=True)
subprocess.run(['/verif/tools/seedreadme.py'], stdout=subprocess.DEVNULL)
