#!/venv/bin/python
"""tools/keepseed.py <ID> <property> <needs> <summary-json-file>: store a confirmed seeded change under seeded/<ID>/"""
import json, os, shutil, sys
sid, prop, needs, summ = sys.argv[1:5]
root = sys.argv[sys.argv.index('--root') + 1] if '--root' in sys.argv else '/tmp/seed'
name = sys.argv[sys.argv.index('--name') + 1] if '--name' in sys.argv else sid
d = os.path.join('/verif/seeded', name)
os.makedirs(d, exist_ok=True)
shutil.copy('%s/%s.patch.diff' % (root, sid), os.path.join(d, 'patch.diff'))
import re
_src = open('%s/%s/demo.py' % (root, sid)).read()
sys.path.insert(0, os.path.dirname(os.path.abspath(__file__)))
import stripassert
_src = stripassert.strip(_src)
open(os.path.join(d, 'demo.py'), 'w').write(_src)
s = json.load(open(summ))
meta = dict(id=name, breaks_property=prop, needs_to_manifest=needs,
            confirmed=dict(demo_without_change=s.get('demo_without_change'), demo_with_change=s.get('demo_with_change'),
                           patch_applies=s.get('patch_applies'), baseline=s.get('baseline')),
            checks_run={k: dict(exit=v['exit'], first=v['lines'][:2]) for k, v in s.get('checks', {}).items()},
            how='tools/seedcheck.py %s seeded/%s/patch.diff seeded/%s/demo.py --baseline --checks ... (scratch copy of /repo, removed afterwards)' % (name, name, name))
json.dump(meta, open(os.path.join(d, 'meta.json'), 'w'), indent=1)
print('kept', d)
