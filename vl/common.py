"""Shared plumbing: Violation protocol, library-call wrapper, counters, JSON helpers.

Nothing in here imports metric_learn at module import time; `ml()` returns the module
imported from VERIF_REPO (default /repo) so that checks always run against the working tree.
"""
import contextlib
import hashlib
import importlib
import json
import math
import os
import sys
import warnings
import zlib
from collections import Counter

import numpy as np

REPO = os.environ.get('VERIF_REPO', '/repo')
VERIF = os.path.dirname(os.path.dirname(os.path.abspath(__file__)))
EPS = float(np.finfo(float).eps)


class Violation(Exception):
  """The property does not hold on this case.  `sig` identifies the failing clause and the
  discriminating class of the input; `msg` is human readable."""

  def __init__(self, sig, msg=''):
    super().__init__('%s: %s' % (sig, msg))
    self.sig = sig
    self.msg = msg


class Discard(Exception):
  """The case is outside the property's stated domain (counted, never a pass)."""

  def __init__(self, reason):
    super().__init__(reason)
    self.reason = reason


class HarnessError(Exception):
  pass


_ml = None


def ml():
  """metric_learn imported from the tree under test."""
  global _ml
  if _ml is None:
    if sys.path[0] != REPO:
      sys.path.insert(0, REPO)
    for k in [k for k in sys.modules if k == 'metric_learn' or k.startswith('metric_learn.')]:
      del sys.modules[k]
    with warnings.catch_warnings():
      warnings.simplefilter('ignore')
      m = importlib.import_module('metric_learn')
    if not os.path.abspath(m.__file__).startswith(os.path.abspath(REPO) + os.sep):
      raise HarnessError('metric_learn imported from %s, expected %s' % (m.__file__, REPO))
    _ml = m
  return _ml


def mlsub(name):
  ml()
  return importlib.import_module('metric_learn.' + name)


def derive_seed(*parts):
  return zlib.crc32(':'.join(str(p) for p in parts).encode()) & 0x7fffffff


def call(sig, fn, *args, expect=(), **kw):
  """Call into the library.  Exceptions of the types in `expect` are returned (specified
  outcomes); any other exception escaping from the library is a Violation with `sig`."""
  try:
    return fn(*args, **kw)
  except (Violation, Discard, HarnessError):
    raise
  except expect as e:
    return e
  except Exception as e:  # noqa: escaping exception from library code
    raise Violation('%s/raises-%s' % (sig, type(e).__name__),
                    '%s: %s' % (type(e).__name__, str(e)[:300]))


@contextlib.contextmanager
def quiet():
  with warnings.catch_warnings():
    warnings.simplefilter('ignore')
    with np.errstate(all='ignore'):
      yield


@contextlib.contextmanager
def recorded_warnings():
  with warnings.catch_warnings(record=True) as w:
    warnings.simplefilter('always')
    yield w


def jsonable(o):
  if isinstance(o, dict):
    return {str(k): jsonable(v) for k, v in o.items()}
  if isinstance(o, (list, tuple)):
    return [jsonable(v) for v in o]
  if isinstance(o, np.ndarray):
    return jsonable(o.tolist())
  if isinstance(o, (np.integer,)):
    return int(o)
  if isinstance(o, (np.floating,)):
    return float(o)
  if isinstance(o, (np.bool_,)):
    return bool(o)
  if isinstance(o, (str, int, float, bool)) or o is None:
    return o
  return repr(o)


def digest(o):
  return hashlib.sha1(json.dumps(jsonable(o), sort_keys=True).encode()).hexdigest()[:16]


class Stats:
  """Per-shard counters; merged across shards by the runner."""

  def __init__(self):
    self.evaluations = 0
    self.nontrivial = set()
    self.classes = Counter()
    self.discards = Counter()
    self.inconclusive = Counter()
    self.known = Counter()
    self.samples = []
    self.notes = Counter()
    self.extra = {}

  def case(self, case, nontrivial, classes=(), sample_every=97):
    self.evaluations += 1
    for c in classes:
      self.classes[c] += 1
    if nontrivial:
      dg = digest(case)
      if dg not in self.nontrivial:
        self.nontrivial.add(dg)
        if len(self.samples) < 3 or (len(self.nontrivial) % sample_every == 0 and len(self.samples) < 8):
          self.samples.append(jsonable(case))

  def to_dict(self):
    return dict(evaluations=self.evaluations, nontrivial=sorted(self.nontrivial),
                classes=dict(self.classes), discards=dict(self.discards),
                inconclusive=dict(self.inconclusive), known=dict(self.known),
                samples=self.samples, notes=dict(self.notes), extra=self.extra)


def rel_err(a, b, scale=None):
  a = np.asarray(a, dtype=float)
  b = np.asarray(b, dtype=float)
  if scale is None:
    scale = max(np.max(np.abs(a), initial=0.0), np.max(np.abs(b), initial=0.0), 1e-300)
  return float(np.max(np.abs(a - b), initial=0.0) / scale)


def bits_equal(a, b):
  a = np.asarray(a)
  b = np.asarray(b)
  return a.shape == b.shape and a.dtype == b.dtype and a.tobytes() == b.tobytes()


def sigma_max(L):
  return float(np.linalg.norm(np.asarray(L, dtype=float), 2)) if np.size(L) else 0.0


def safe_norm(v, axis=None, keepdims=False):
  """Euclidean norm without intermediate under/overflow."""
  v = np.asarray(v, dtype=float)
  m = np.max(np.abs(v), axis=axis, keepdims=True, initial=0.0)
  m = np.where(m > 0, m, 1.0)
  r = m * np.sqrt(np.sum((v / m) ** 2, axis=axis, keepdims=True))
  if not keepdims:
    r = np.squeeze(r, axis=axis) if axis is not None else float(np.squeeze(r))
  return r
