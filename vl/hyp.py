"""Hypothesis driver: one seeded, database-free run of a pure check function over a strategy,
with collect-then-continue over distinct failure signatures."""
import os

import hypothesis
from hypothesis import HealthCheck, Phase, given, settings

from .common import Discard, Violation, jsonable


def make_settings(max_examples, shrink=True, stateful_step_count=None):
  phases = [Phase.explicit, Phase.generate, Phase.target]
  if shrink and not os.environ.get('VERIF_NO_SHRINK'):
    phases.append(Phase.shrink)
  kw = dict(max_examples=max_examples, database=None, deadline=None, derandomize=False,
            report_multiple_bugs=False, phases=phases, print_blob=False,
            suppress_health_check=list(HealthCheck))
  if stateful_step_count is not None:
    kw['stateful_step_count'] = stateful_step_count
  return settings(**kw)


def drive(check, strategy, max_examples, seed, stats, known_sigs=(), name=None, shrink=True,
          max_rounds=4):
  """Run `check(case, stats)` on `max_examples` generated cases.

  check raises Violation (property broken), Discard (out of domain) or returns.
  Returns a list of failures [{sig, msg, case, check}] - one per distinct signature, each
  with the shrunk case.  Signatures in `known_sigs` are counted in stats.known and the
  search continues past them."""
  failures = []
  suppressed = set()
  known = set(known_sigs)
  state = {}

  def body(case):
    state['last'] = case
    try:
      check(case, stats)
    except Discard as d:
      stats.discards[d.reason] += 1
    except Violation as v:
      if v.sig in known:
        stats.known[v.sig] += 1
        return
      if v.sig in suppressed:
        return
      raise

  for _ in range(max_rounds):
    test = hypothesis.seed(seed)(make_settings(max_examples, shrink)(given(strategy)(body)))
    try:
      test()
      break
    except Violation as v:
      failures.append(dict(sig=v.sig, msg=v.msg, case=jsonable(state.get('last')),
                           check=name or getattr(check, '__name__', 'check')))
      suppressed.add(v.sig)
  return failures


def run_explicit(check, cases, stats, known_sigs=(), name=None):
  """Enumerated (non-generated) cases through the same protocol."""
  failures = []
  seen = set()
  known = set(known_sigs)
  for case in cases:
    try:
      check(case, stats)
    except Discard as d:
      stats.discards[d.reason] += 1
    except Violation as v:
      if v.sig in known:
        stats.known[v.sig] += 1
      elif v.sig not in seen:
        seen.add(v.sig)
        failures.append(dict(sig=v.sig, msg=v.msg, case=jsonable(case),
                             check=name or getattr(check, '__name__', 'check')))
  return failures
