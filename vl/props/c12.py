"""C12 - LSML descends its convex objective from the prior to a stationary point."""
import math

import numpy as np
from hypothesis import strategies as st

from ..common import Violation, Discard, call, mlsub, bits_equal
from ..hyp import drive
from .. import estimators as E, gen, oracles as O

RULE = ('LSML and LSML_Supervised on generated quadruplet sets (4-40) x prior in {identity, covariance, random, SPD array} x '
        'weights {None, positive ndarray, list, integer-valued, scaled by 10^[-3,3], uniform} x tol in [1e-5,1e-2] x max_iter '
        'in {1,3,50,400}; also sets whose constraints all hold under the prior.  Oracle: the harness evaluates the documented '
        'objective and its gradient itself, runs its own descent from the returned matrix, and refits with scaled / list '
        'weights.  Non-trivial = at least one violated constraint under the prior and n_iter_ >= 2, or a weights case; '
        'distinct by canonical case.')
ASSUMPTIONS = ['stationarity asserted as ||grad f_w(M)||_F <= 1.01 tol when n_iter_ < max_iter, tol restricted to >= 1e-5',
               'global-minimiser clause: own descent from M may not lower f_w by more than 10 tol (1 + ||M - M_ref||)',
               'weights are normalised to sum one (the library\'s stated convention)']
NAMES = ['LSML', 'LSML_Supervised']


@st.composite
def case_strategy(draw, name):
  desc = draw(gen.dataset_desc(dmax=5, scales=False))
  return dict(est=name, desc=desc, prior=draw(st.sampled_from(['identity', 'covariance', 'random', 'array'])),
              aseed=draw(st.integers(0, 999)), seed=draw(st.integers(0, 10 ** 6)), nq=draw(st.integers(4, 24)),
              weights=draw(st.sampled_from(['none', 'none', 'array', 'list', 'int', 'uniform', 'scaled'])),
              wscale=draw(st.integers(-3, 3)), logtol=draw(st.floats(-5, -2, allow_nan=False)),
              max_iter=draw(st.sampled_from([1, 3, 50, 400, 400])), satisfied=draw(st.integers(0, 7)) == 0,
              collapsed=draw(st.integers(0, 3)) == 0, ncollapsed=draw(st.integers(1, 6)), coarse=draw(st.integers(0, 3)) == 0)


def check_c12(case, stats):
  name = case['est']
  data = gen.Data(case['desc'])
  d = data.d
  if case.get('coarse'):
    # points on a coarse grid: distinct points share single coordinates, quadruplets share points
    step = float(np.abs(data.X).max()) / 4.0
    data.X = np.round(data.X / step) * step
    data._c = {}
  prior = gen.spd_from_seed(d, case['aseed']) if case['prior'] == 'array' else case['prior']
  if isinstance(prior, np.ndarray) and case['aseed'] % 3 == 0:
    prior = np.asfortranarray(prior)        # memory layout is not part of the matrix
  tol = 10.0 ** case['logtol']
  rstate = case['seed'] % 1000
  params = dict(prior=prior, tol=tol, max_iter=case['max_iter'], random_state=rstate)
  rs = np.random.RandomState(case['seed'])
  if name == 'LSML':
    qidx = gen.make_quads(data.X, data.y, case['nq'], rs)
    Q = data.X[qidx]
  else:
    C = mlsub('constraints')
    params['n_constraints'] = case['nq']
    pn = C.Constraints(data.y).positive_negative_pairs(case['nq'], same_length=True, random_state=rstate)
    Q = data.X[np.column_stack(pn)]
  if case.get('collapsed') and name == 'LSML':
    # "all quadruplet sets": some constraints (a, a, c, d) - always satisfied, but they carry weight
    Q = Q.copy()
    for j in rs.choice(len(Q), size=min(case['ncollapsed'], len(Q) - 1), replace=False):
      Q[j, 1] = Q[j, 0]
  vab = Q[:, 0] - Q[:, 1]
  vcd = Q[:, 2] - Q[:, 3]
  if (np.linalg.norm(vcd, axis=1) == 0).any():
    raise Discard('collapsed second pair inside a quadruplet (d(c,d) = 0 cannot be exceeded)')
  Pinv0 = E.prior_inverse(prior, d, Q, rstate)
  wp = np.linalg.eigvalsh((Pinv0 + Pinv0.T) / 2)
  if wp.min() <= 1e-10 * wp.max():
    raise Discard('covariance of the distinct quadruplet points is singular')
  M0 = np.linalg.inv(Pinv0)
  M0 = (M0 + M0.T) / 2
  if case['satisfied']:
    # reorder every quadruplet so that its constraint holds under the prior
    dab = np.einsum('ij,jk,ik->i', vab, M0, vab)
    dcd = np.einsum('ij,jk,ik->i', vcd, M0, vcd)
    swap = dab > dcd
    Q = Q.copy()
    Q[swap] = Q[swap][:, [2, 3, 0, 1]]
    if name == 'LSML_Supervised':
      raise Discard('cannot force satisfied constraints through label-derived quadruplets')
    vab = Q[:, 0] - Q[:, 1]
    vcd = Q[:, 2] - Q[:, 3]
  m = len(Q)
  wmode = case['weights']
  wv = None
  if wmode in ('array', 'list', 'scaled'):
    wv = rs.rand(m) + 0.05
    if wmode == 'scaled':
      wv = wv * 10.0 ** case['wscale']
  elif wmode == 'int':
    wv = rs.randint(1, 6, size=m)
  elif wmode == 'uniform':
    wv = np.full(m, 3.0)
  warg = wv.tolist() if (wv is not None and wmode == 'list') else (wv.copy() if wv is not None else None)
  w_before = None if wv is None else np.array(wv).copy()
  wn = np.ones(m) / m if wv is None else np.asarray(wv, dtype=float) / float(np.sum(wv))

  def fit(weights):
    if name == 'LSML':
      est = E.build(name, params)
      call('C12/fit/%s/weights=%s' % (name, wmode), est.fit, Q, **({} if weights is None else {'weights': weights}))
    else:
      est = E.build(name, dict(params, weights=weights))
      call('C12/fit/%s/weights=%s' % (name, wmode), est.fit, data.X, data.y)
    return est
  est = fit(warg)
  tag = '%s/%s' % (name, case['prior'])
  if wv is not None and isinstance(warg, np.ndarray) and not bits_equal(warg, w_before):
    raise Violation('C12/weights-modified/' + name, 'caller weights %s became %s' % (w_before, warg))
  M = est.get_mahalanobis_matrix()
  if np.abs(M - M.T).max() > 1e-12 * np.abs(M).max():
    raise Violation('C12/symmetric/' + tag, '')
  ev = np.linalg.eigvalsh(M)
  if ev.min() <= 0:
    raise Violation('C12/positive-definite/' + tag, 'lambda_min = %g' % ev.min())
  f0 = O.lsml_objective(M0, vab, vcd, wn, Pinv0)
  f1 = O.lsml_objective(M, vab, vcd, wn, Pinv0)
  if f1 > f0 + 1e-10 * max(abs(f0), 1.0):
    raise Violation('C12/objective-increased/' + tag, 'f(M) = %r > f(prior) = %r (weights %s)' % (f1, f0, wmode))
  dab0 = np.einsum('ij,jk,ik->i', vab, M0, vab)
  dcd0 = np.einsum('ij,jk,ik->i', vcd, M0, vcd)
  violated0 = int((dab0 > dcd0).sum())
  if violated0 == 0:
    if np.abs(M - M0).max() > 1e-9 * np.abs(M0).max():
      raise Violation('C12/prior-not-returned/' + tag, 'all constraints hold under the prior, max|M - M0| = %g' % np.abs(M - M0).max())
  early = est.n_iter_ < case['max_iter']
  if early:
    G = O.lsml_gradient(M, vab, vcd, wn, Pinv0)
    gn = float(np.linalg.norm(G))
    wtag = 'weighted' if wv is not None and wmode != 'uniform' else 'unweighted'
    if gn > 1.01 * tol:
      # discriminating predicate of known finding KF4: the solver's second exit (no step of its fixed grid
      # 1e-10..1, relative to the gradient norm, lowers the objective).  Decided with the harness' OWN
      # gradient and objective: if a grid step along the true gradient does lower the true objective, the
      # early stop is not that stall and stays an ordinary violation.
      stall = True
      for s_ in np.logspace(-10, 0, 10):
        Mn = M - (s_ / gn) * G
        wn_, vn_ = np.linalg.eigh((Mn + Mn.T) / 2)
        Mn = vn_.dot((np.maximum(wn_, 1e-8) * vn_).T)
        if O.lsml_objective(Mn, vab, vcd, wn, Pinv0) < f1 - 1e-13 * max(abs(f1), 1.0):
          stall = False
          break
      if stall:
        raise Violation('C12/not-stationary/line-search-stall/' + name,
                        'stopped after %d < %d iterations with ||grad f_w|| = %g > tol = %g: no step of the grid 1e-10..1 lowers '
                        'the objective (lambda_min(M) / lambda_max(M) = %g)' % (est.n_iter_, case['max_iter'], gn, tol, ev.min() / ev.max()))
      raise Violation('C12/not-stationary/%s/%s' % (wtag, name), 'stopped after %d < %d iterations with ||grad f_w|| = %g > tol = %g'
                      % (est.n_iter_, case['max_iter'], gn, tol))
    Mref, fref = O.lsml_descend(M, vab, vcd, wn, Pinv0, iters=60)
    if f1 > fref + 10 * tol * (1 + np.linalg.norm(M - Mref)):
      raise Violation('C12/not-global-minimum/' + tag, 'own descent from M lowers f from %r to %r' % (f1, fref))
  # weights semantics
  if wv is not None:
    if wmode == 'uniform':
      ref = fit(None)
      what = 'None'
    elif wmode == 'list':
      ref = fit(np.array(wv))
      what = 'ndarray'
    else:
      ref = fit(np.asarray(wv, dtype=float) * 8.0)    # power of two: the normalised weights are bitwise the same
      what = '8 * w'
    Mr = ref.get_mahalanobis_matrix()
    if np.abs(M - Mr).max() > 1e-7 * np.abs(M).max():
      raise Violation('C12/weights-semantics/%s/%s' % (wmode, name), 'fit(weights=%s) vs fit(weights=%s): max|dM| = %g' % (wmode, what, np.abs(M - Mr).max()))
  stats.case(case, (violated0 > 0 and est.n_iter_ >= 2) or wv is not None,
             [name, 'prior:' + case['prior'], 'weights:' + wmode, 'early-stop' if early else 'budget-hit',
              'prior-feasible' if violated0 == 0 else 'prior-infeasible'])


CHECKS = {'check_c12': check_c12}
_B = {'quick': 50, 'thorough': 800}


def shards(tier):
  return [dict(name='%s-%d' % (n, i), est=n) for n in NAMES for i in range(6)]


def run_shard(shard, tier, seed, stats, known_sigs):
  return drive(check_c12, case_strategy(shard['est']), _B[tier], seed, stats, known_sigs, name='check_c12')
