"""C19 - the learned distance depends on the data only through its geometry (metamorphic relations)."""
import math

import os

import numpy as np
from hypothesis import strategies as st

from ..common import Violation, Discard, call
from ..hyp import drive
from .. import estimators as E, gen, observe

RULE = ('generated training sets x relation: TRANSLATION (all 17; data and translation on the dyadic grid 2^-6 so that every '
        'difference is exact), within-pair SWAP at drawn positions (ITML, MMC, SDML; both pairs of a quadruplet for LSML), sample '
        'PERMUTATION (Covariance, RCA), orthogonal map Q = product of drawn Givens rotations and a reflection (Covariance, RCA, '
        'LFDA, LMNN identity init, ITML / LSML / MMC with identity or covariance prior/init), SCALING by 2^j, |j| <= 4 or j in +-{12,20,30,40} (Covariance, RCA).  '
        'Two fits (original, transformed) are compared through learned distances on query pairs and their images.  '
        'Non-trivial = the transformation is not the identity (translation longer than the data diameter, >= 1 swapped pair, '
        'Q not a permutation, j != 0) and the model is not the prior; distinct by canonical case.')
ASSUMPTIONS = ['tolerances: 1e-9 swaps / scaling / grid translations of tuple learners, 1e-6 closed-form learners and rotations of '
               'tuple learners, 1e-5 iterative point learners; a larger deviation is a violation only if it exceeds 100x the '
               'deviation caused by perturbing the original data by one ulp / a relative 1e-10 / 1e-9 (noise-floor control: flat optima make L-BFGS line searches branch on rounding noise), otherwise it is counted '
               'as numerically-sensitive',
               'cases with a neighbour-distance tie (relative gap < 1e-9) are outside the domain for LMNN, LFDA, SCML_Supervised',
               'iterative learners run with few iterations; integer seeds are fixed across the two fits',
               'NCA / MLKR: the captured objective and gradient are compared at the same L on original and transformed data (tight), and the fit-level comparison is asserted only when L-BFGS-B took the same number of iterations and evaluations on both']

REL = {
    'translation': list(E.ALL),
    'swap': ['ITML', 'MMC', 'SDML', 'LSML'],
    'permutation': ['Covariance', 'RCA'],
    'rotation': ['Covariance', 'RCA', 'LFDA', 'LMNN', 'ITML', 'LSML', 'MMC'],
    'scaling': ['Covariance', 'RCA'],
}
CLOSED = ('Covariance', 'RCA', 'RCA_Supervised', 'LFDA')
POINT_ITER = ('LMNN', 'NCA', 'MLKR')


@st.composite
def case_strategy(draw, name):
  rels = [r for r, names in REL.items() if name in names]
  rel = draw(st.sampled_from(rels))
  m = draw(E.model_desc(name, dmax=5, grid=(rel in ('translation', 'swap', 'scaling')), scales=False))
  if rel == 'rotation':
    if name == 'LMNN':
      m['opts'] = dict(init='identity', n_components=None)
    elif name in ('ITML', 'LSML'):
      m['opts'] = dict(prior=draw(st.sampled_from(['identity', 'covariance'])))
    elif name == 'MMC':
      m['opts'] = dict(init=draw(st.sampled_from(['identity', 'covariance'])))
  d = m['desc']['d']
  if name == 'LFDA' and draw(st.integers(0, 1)) == 0:
    # LFDA accepts classes of any size: an extra class of 1-3 members (the relations must still hold)
    m['desc']['sizes'] = list(m['desc']['sizes']) + [draw(st.sampled_from([1, 1, 2, 3]))]
  return dict(model=m, rel=rel, tseed=draw(st.integers(0, 10 ** 6)),
              tvec=[draw(st.integers(-2048, 2048)) for _ in range(d)],
              angles=[draw(st.floats(-3.1, 3.1, allow_nan=False)) for _ in range(max(1, d * (d - 1) // 2))],
              reflect=draw(st.booleans()), j=draw(st.one_of(st.integers(-4, 4), st.sampled_from([-40, -30, -20, -12, 12, 20, 30, 40]))), swapfrac=draw(st.floats(0.1, 1.0, allow_nan=False)),
              far=draw(st.booleans()))


def neighbour_gap(X, y):
  gap = float('inf')
  n = len(X)
  for i in range(n):
    for mask in (y == y[i], y != y[i]):
      idx = np.flatnonzero(mask)
      idx = idx[idx != i]
      ds = np.sort(((X[idx] - X[i]) ** 2).sum(axis=1))
      if len(ds) > 1:
        g = np.diff(ds) / np.maximum(ds[1:], 1e-300)
        gap = min(gap, float(g.min()))
  return gap


def rotation(d, angles, reflect):
  Q = np.eye(d)
  k = 0
  for a in range(d):
    for b in range(a + 1, d):
      th = angles[k % len(angles)]
      k += 1
      G = np.eye(d)
      G[a, a] = G[b, b] = math.cos(th)
      G[a, b] = -math.sin(th)
      G[b, a] = math.sin(th)
      Q = G.dot(Q)
  if reflect:
    Q[0] = -Q[0]
  return Q


class Indexed:
  """index-level description of the training input, so that the same tuples are formed from transformed points"""

  def __init__(self, data, gaps=False):
    self.y, self.yreal, self.chunks = data.y, data.yreal, data.chunks
    if gaps:       # chunk ids need not be contiguous: j -> 2j + 1
      self.chunks = np.where(self.chunks >= 0, 2 * self.chunks + 1, -1)
    self.pairs_idx, self.ypairs = data.pairs_idx
    self.trip, self.quad = data.triplets_idx, data.quads_idx

  def args(self, name, X, swap=None, perm=None):
    k = E.KIND[name]
    if perm is not None:
      if k == 'X':
        return (X[perm],)
      if k == 'Xchunks':
        return (X[perm], self.chunks[perm])
    if k == 'X':
      return (X,)
    if k == 'Xy':
      return (X, self.y)
    if k == 'Xyreal':
      return (X, self.yreal)
    if k == 'Xchunks':
      return (X, self.chunks)
    if k == 'pairs':
      idx = self.pairs_idx.copy()
      if swap is not None:
        idx[swap] = idx[swap][:, ::-1]
      return (X[idx], self.ypairs)
    if k == 'triplets':
      return (X[self.trip],)
    idx = self.quad.copy()
    if swap is not None:
      idx[swap] = idx[swap][:, [1, 0, 3, 2]]
    return (X[idx],)


def check_c19(case, stats):
  m = case['model']
  name, rel = m['est'], case['rel']
  data = gen.Data(m['desc'])
  X, d = data.X, data.d
  ix = Indexed(data, gaps=(name == 'RCA' and (rel == 'translation' or case['tseed'] % 2 == 0)))
  if name in ('LMNN', 'LFDA', 'SCML_Supervised') and neighbour_gap(X, data.y) < 1e-9:
    raise Discard('neighbour-distance tie (choice of neighbours not determined)')
  params = E.materialize(name, m['opts'], data, m['aseed'])
  rs = np.random.RandomState(case['tseed'])
  diam = float(np.abs(X - X.mean(0)).max()) * 2
  Q = rs.randn(8, 2, d) * diam / 2 + X.mean(0)
  swap = perm = None
  scale = 1.0
  far = False
  if rel == 'translation':
    t = np.array(case['tvec'], dtype=float) * gen.GRID * max(1.0, diam / 4)
    far = bool(case.get('far')) and name in E.TUPLE_LEARNERS and \
        not any(isinstance(v, str) and v == 'covariance' for v in m['opts'].values())
    if far:
      # "all translation vectors": for the tuple learners every within-tuple difference stays bitwise the same on
      # the dyadic grid, however far the points are moved (|t| up to ~5e5 x the data diameter)
      t = t * 2.0 ** 14
    t = np.round(t / gen.GRID) * gen.GRID
    X2, Q2 = X + t, Q + t
    if not np.array_equal(X2 - t, X):
      raise Discard('translation not exact in floating point')
    if far:
      Q = np.round(Q / gen.GRID) * gen.GRID          # query points on the grid too, so that Q + t - t == Q
      Q2 = Q + t
    ident = float(np.linalg.norm(t)) <= diam
  elif rel == 'swap':
    ntup = len(ix.pairs_idx) if E.KIND[name] == 'pairs' else len(ix.quad)
    swap = rs.rand(ntup) < case['swapfrac']
    X2, Q2 = X, Q
    ident = not swap.any()
  elif rel == 'permutation':
    perm = rs.permutation(len(X))
    X2, Q2 = X, Q
    ident = bool((perm == np.arange(len(X))).all())
  elif rel == 'rotation':
    R = rotation(d, case['angles'], case['reflect'])
    X2, Q2 = X.dot(R.T), Q.dot(R.T)
    ident = bool(np.allclose(np.abs(R).max(axis=1), 1.0, atol=1e-6))
  else:
    c = 2.0 ** case['j']
    X2, Q2 = X * c, Q      # same query points: distances must shrink by 1/c
    scale = c
    ident = case['j'] == 0
  exp = (RuntimeError,) if 'SDML' in name else ()

  def fit(Xa, swap_=None, perm_=None):
    est = E.build(name, params)
    r = E.fit_call('C19/fit', name, est, ix.args(name, Xa, swap_, perm_), m['desc'], params, expect=exp)
    if isinstance(r, Exception):
      raise Discard('SDML RuntimeError (specified outcome)')
    return est
  lbfgs = name in ('NCA', 'MLKR')
  if lbfgs:
    with observe.record_minimize(name.lower()) as rec1:
      e1 = fit(X)
    with observe.record_minimize(name.lower()) as rec2:
      e2 = fit(X2, swap, perm)
    # objective-level clause (deterministic): the function handed to the optimiser must be the same function of L
    # for the original and the transformed data, and the start points must agree
    f1, a1, f2, a2 = rec1['fun'], rec1['args'], rec2['fun'], rec2['args']
    x0a, x0b = rec1['x0'], rec2['x0']
    # (rows produced by pca / lda carry an arbitrary sign, and the objectives are even in every row of L)
    ra_, rb_ = x0a.reshape(-1, X.shape[1]), x0b.reshape(-1, X.shape[1])
    if ra_.shape == rb_.shape:
      x0b = np.where((np.abs(ra_ - rb_).max(axis=1) <= np.abs(ra_ + rb_).max(axis=1))[:, None], rb_, -rb_).ravel()
    if x0a.shape != x0b.shape or np.abs(x0a - x0b).max() > 1e-6 * max(np.abs(x0a).max(), 1e-300):
      raise Violation('C19/%s/%s/initialisation' % (rel, name), 'start points differ by %g relative' % (np.abs(x0a - x0b).max() / max(np.abs(x0a).max(), 1e-300)))
    nfeat = X.shape[1]
    for Lflat in (x0a, np.asarray(e1.components_).ravel(), x0a * 0.5 + 0.1):
      v1, g1 = f1(Lflat.copy(), *a1)
      v2, g2 = f2(Lflat.copy(), *a2)
      Z2 = np.abs(X2.dot(Lflat.reshape(-1, nfeat).T)).max()
      ftol = 1e-9 * max(1.0, abs(v1)) + 256 * 2.3e-16 * len(X) * max(Z2, 1.0) ** 2 * max(1.0, abs(v1))
      if abs(v1 - v2) > ftol:
        raise Violation('C19/%s/%s/objective' % (rel, name), 'objective at the same L: %r on the original data, %r on the transformed data' % (v1, v2))
      gs = max(np.abs(g1).max(), 1e-300)
      gtol = 1e-6 * gs + 1024 * 2.3e-16 * len(X) * nfeat * max(Z2, 1.0) ** 2 * max(np.abs(X2).max(), 1.0) * max(1.0, abs(v1))
      if np.abs(np.asarray(g1) - np.asarray(g2)).max() > gtol:
        raise Violation('C19/%s/%s/gradient' % (rel, name), 'gradient at the same L differs by %g (scale %g)' % (np.abs(np.asarray(g1) - np.asarray(g2)).max(), gs))
    same_path = (rec1['result'].nit == rec2['result'].nit and rec1['result'].nfev == rec2['result'].nfev)
  else:
    e1 = fit(X)
    e2 = fit(X2, swap, perm)
    same_path = True
  d1 = np.asarray(e1.pair_distance(Q))
  d2 = np.asarray(e2.pair_distance(Q2)) * scale
  if not (np.isfinite(d1).all() and np.isfinite(d2).all()):
    raise Discard('non-finite distances')
  ref = max(float(np.abs(d1).max()), 1e-300)
  dev = float(np.abs(d1 - d2).max()) / ref
  if rel in ('swap', 'scaling') or (rel == 'translation' and name in E.TUPLE_LEARNERS):
    tight = 1e-9
  elif name in CLOSED or (rel == 'rotation' and name in ('ITML', 'LSML', 'MMC')) or name in E.TUPLE_LEARNERS or name in E.SUPERVISED:
    tight = 1e-6
  else:
    tight = 1e-5
  cls = 'within-tolerance'
  if dev > tight and not same_path:
    # L-BFGS-B took a different number of iterations / function evaluations on the two data sets: its line search
    # branched on rounding noise (flat optimum); the fit-level comparison says nothing then - the objective-level
    # clause above has already compared the functions themselves
    cls = 'optimiser-path-differs'
    stats.inconclusive['L-BFGS path differs between the two fits (fit-level comparison not meaningful)'] += 1
  elif dev > tight:
    # noise-floor control: how much do one-ulp perturbations of the ORIGINAL data move the model?
    worst = 0.0
    xs = float(np.abs(X).max())
    for k in range(4):
      prs = np.random.RandomState(case['tseed'] + 1 + k)
      if k == 0:
        Xp = np.nextafter(X, np.where(prs.rand(*X.shape) < 0.5, -np.inf, np.inf))
      else:
        Xp = X + prs.randn(*X.shape) * xs * (1e-10 if k % 2 else 1e-9)
      ep = fit(Xp)
      worst = max(worst, float(np.abs(np.asarray(ep.pair_distance(Q)) - d1).max()) / ref)
    factor = 1000 if lbfgs else 100      # L-BFGS fits: the objective-level clause above is the sharp one
    flat = False
    if lbfgs and rel in ('translation', 'permutation') and dev > factor * worst + tight:
      # both fits minimise the SAME function (clause above): if the two end points have the same objective value
      # the optimiser stopped at two points of a flat optimum - rounding chaos, not a dependence on the origin
      va = float(f1(np.asarray(e1.components_).ravel().copy(), *a1)[0])
      vb = float(f1(np.asarray(e2.components_).ravel().copy(), *a1)[0])
      flat = abs(va - vb) <= 1e-6 * max(1.0, abs(va))
      if os.environ.get('VERIF_DEBUG'):
        print('C19 flat-optimum probe', va, vb, dev, worst)
    if flat:
      stats.inconclusive['L-BFGS end points differ but reach the same objective value (flat optimum)'] += 1
    elif dev > factor * worst + tight:
      raise Violation('C19/%s%s/%s' % (rel, '-far' if far else '', name), 'learned distances change by %g relative under %s (tolerance %g, one-ulp control %g); options %r'
                      % (dev, rel, tight, worst, m['opts']))
    cls = 'numerically-sensitive'
    stats.inconclusive['numerically-sensitive (deviation explained by <=1e-9 relative perturbations of the data)'] += 1
  M1 = e1.get_mahalanobis_matrix()
  not_prior = bool(np.abs(M1 - np.eye(d)).max() > 1e-9)
  stats.case(case, (not ident) and not_prior and cls == 'within-tolerance', [name, 'rel:' + rel + ('-far' if far else ''), cls,
                                                                             'bitwise' if dev == 0 else 'rounded'])


CHECKS = {'check_c19': check_c19}
_B = {'quick': 25, 'thorough': 600}


def shards(tier):
  return [dict(name=n, est=n) for n in E.ALL]


def run_shard(shard, tier, seed, stats, known_sigs):
  n = _B[tier] * (8 if shard['est'] == 'LFDA' else 4 if shard['est'] in CLOSED else 1)     # closed-form learners are cheap: more cases
  return drive(check_c19, case_strategy(shard['est']), n, seed, stats, known_sigs, name='check_c19')
