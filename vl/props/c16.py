"""C16 - threshold calibration picks an optimal cut-off for the chosen criterion."""
import numpy as np
from hypothesis import strategies as st

from ..common import Violation, Discard, call
from ..hyp import drive
from .. import estimators as E, gen

RULE = ('fitted ITML/MMC/SDML x validation pairs (0, m_i*u) whose learned distances form a drawn multiset '
        '(m_i small integers 0..5 -> exact ties and zero distances, or floats) x labels with both classes '
        '(conflicting duplicates allowed) x strategy in {accuracy,f_beta,max_tpr,max_tnr} x beta in '
        '{0,0.5,1,2,10,drawn} x min_rate in {0,1,drawn}; through calibrate_threshold and through '
        'fit(calibration_params=...) on the training pairs. Oracle: brute force over reject-all and d<=t for '
        'every distinct distance t, computed from integer counts. Non-trivial = a positive and a negative '
        'pair tie in distance, or the optimum is reject-all/accept-all, or min_rate excludes the '
        'unconstrained optimum; distinct by canonical case.')
ASSUMPTIONS = ['rate comparisons use a 1e-9 guard band around min_rate on both sides',
               'F-beta with tp = 0 is 0; F values compared within 1e-12']
NAMES = ['ITML', 'MMC', 'SDML']


@st.composite
def task(draw, d):
  n = draw(st.integers(2, 12))
  if draw(st.integers(0, 3)) > 0:
    ms = [float(draw(st.integers(0, 5))) for _ in range(n)]
  else:
    ms = [draw(st.floats(0, 10, allow_nan=False, width=64)) for _ in range(n)]
  labels = [draw(st.sampled_from([1, -1])) for _ in range(n)]
  i = draw(st.integers(0, n - 1))
  j = (i + 1 + draw(st.integers(0, n - 2))) % n
  labels[i], labels[j] = 1, -1
  strategy = draw(st.sampled_from(['accuracy', 'f_beta', 'max_tpr', 'max_tnr']))
  return dict(ms=ms, labels=labels, strategy=strategy,
              beta=draw(st.one_of(st.sampled_from([0, 0.5, 1, 1.0, 2, 10]), st.floats(0, 20, allow_nan=False))),
              min_rate=draw(st.one_of(st.sampled_from([0, 1, 0.0, 1.0, 0.5]), st.floats(0, 1, allow_nan=False))),
              u=[draw(st.integers(-3, 3)) for _ in range(d)],
              vdtype=draw(st.sampled_from(['float64', 'float64', 'float32', 'float16'])),
              jitter=draw(st.integers(0, 3)) == 0)


@st.composite
def case_strategy(draw, name, n_tasks):
  m = draw(E.model_desc(name, dmax=4))
  d = m['desc']['d']
  return dict(model=m, tasks=draw(st.lists(task(d), min_size=1, max_size=n_tasks)),
              fit_cal=draw(st.one_of(st.none(), st.fixed_dictionaries(dict(
                  strategy=st.sampled_from(['accuracy', 'f_beta', 'max_tpr', 'max_tnr']),
                  beta=st.sampled_from([0.5, 1.0, 2.0]), min_rate=st.sampled_from([0.0, 0.25, 0.6, 1.0]))))))


def criteria(dist, y, pred):
  tp = int(((pred == 1) & (y == 1)).sum())
  tn = int(((pred == -1) & (y == -1)).sum())
  P = int((y == 1).sum())
  N = int((y == -1).sum())
  return dict(correct=tp + tn, tp=tp, fp=N - tn, fn=P - tp, tpr=tp / P, tnr=tn / N)


def fbeta(c, beta):
  if c['tp'] == 0:
    return 0.0
  b2 = beta * beta
  return (1 + b2) * c['tp'] / ((1 + b2) * c['tp'] + b2 * c['fn'] + c['fp'])


def verify(name, dist, y, thr, strategy, beta, min_rate, how):
  """oracle: does predicting with `thr` attain the best criterion value any threshold can?"""
  pred = np.where(dist <= thr, 1, -1)
  got = criteria(dist, y, pred)
  cands = [criteria(dist, y, np.full(len(dist), -1))]
  for t in sorted(set(dist.tolist())):
    cands.append(criteria(dist, y, np.where(dist <= t, 1, -1)))
  info = 'dist=%s y=%s threshold=%r' % (dist.tolist(), y.tolist(), thr)
  tie = bool(set(dist[y == 1].tolist()) & set(dist[y == -1].tolist()))
  tag = 'tied' if tie else 'untied'
  nontrivial = tie
  if strategy == 'accuracy':
    best = max(c['correct'] for c in cands)
    if got['correct'] != best:
      raise Violation('C16/accuracy/%s/%s' % (tag, how), '%s: %d correct, best cut-off gives %d' % (info, got['correct'], best))
    nontrivial = nontrivial or cands[0]['correct'] == best or cands[-1]['correct'] == best
  elif strategy == 'f_beta':
    best = max(fbeta(c, beta) for c in cands)
    if not fbeta(got, beta) >= best - 1e-12:
      raise Violation('C16/f_beta/%s/%s' % (tag, how), '%s beta=%r: F=%r, best %r' % (info, beta, fbeta(got, beta), best))
    nontrivial = nontrivial or fbeta(cands[-1], beta) >= best - 1e-12
  elif strategy == 'max_tpr':
    adm = [c for c in cands if c['tnr'] >= min_rate + 1e-9]
    if got['tnr'] < min_rate - 1e-9:
      raise Violation('C16/max_tpr/inadmissible/%s/%s' % (tag, how), '%s min_rate=%r: TNR %r' % (info, min_rate, got['tnr']))
    if adm and got['tpr'] < max(c['tpr'] for c in adm) - 1e-12:
      raise Violation('C16/max_tpr/suboptimal/%s/%s' % (tag, how), '%s min_rate=%r: TPR %r, attainable %r'
                      % (info, min_rate, got['tpr'], max(c['tpr'] for c in adm)))
    free = max(cands, key=lambda c: c['tpr'])
    nontrivial = nontrivial or free['tnr'] < min_rate
  else:
    adm = [c for c in cands if c['tpr'] >= min_rate + 1e-9]
    if got['tpr'] < min_rate - 1e-9:
      raise Violation('C16/max_tnr/inadmissible/%s/%s' % (tag, how), '%s min_rate=%r: TPR %r' % (info, min_rate, got['tpr']))
    if adm and got['tnr'] < max(c['tnr'] for c in adm) - 1e-12:
      raise Violation('C16/max_tnr/suboptimal/%s/%s' % (tag, how), '%s min_rate=%r: TNR %r, attainable %r'
                      % (info, min_rate, got['tnr'], max(c['tnr'] for c in adm)))
    free = max(cands, key=lambda c: c['tnr'])
    nontrivial = nontrivial or free['tpr'] < min_rate
  return nontrivial, tag


BAD = [dict(strategy='weird'), dict(strategy='max_tpr'), dict(strategy='max_tpr', min_rate=None),
       dict(strategy='max_tnr', min_rate=-0.1), dict(strategy='max_tpr', min_rate=1.5),
       dict(strategy='max_tnr', min_rate='0.5'), dict(strategy='f_beta', beta=None),
       dict(strategy='f_beta', beta='1'), dict(strategy=None), dict(strategy='max_tpr', min_rate=float('nan'))]


def check_c16(case, stats):
  m = case['model']
  name = m['est']
  data = gen.Data(m['desc'])
  params = E.materialize(name, m['opts'], data, m['aseed'])
  fa = E.fit_args(name, data)
  exp = (RuntimeError,) if name == 'SDML' else ()
  # invalid calibration parameters are rejected before any fitting work
  for bad in BAD:
    fresh = E.build(name, params)
    r = call('C16/fit-bad-calibration/' + name, fresh.fit, *fa, calibration_params=bad, expect=(ValueError,))
    if not isinstance(r, ValueError):
      raise Violation('C16/invalid-params-accepted/fit/' + name, 'calibration_params=%r accepted by fit' % (bad,))
    if hasattr(fresh, 'components_') or hasattr(fresh, 'threshold_'):
      raise Violation('C16/invalid-params-after-fitting/' + name, 'calibration_params=%r rejected only after fitting' % (bad,))
  est = E.build(name, params)
  kw = {}
  if case['fit_cal']:
    fc = case['fit_cal']
    cp = dict(strategy=fc['strategy'])
    if fc['strategy'] == 'f_beta':
      cp['beta'] = fc['beta']
    if fc['strategy'] in ('max_tpr', 'max_tnr'):
      cp['min_rate'] = fc['min_rate']
    kw['calibration_params'] = cp
  r = E.fit_call('C16/fit', name, est, fa, m['desc'], params, expect=exp, kw=kw)
  if isinstance(r, Exception):
    raise Discard('SDML RuntimeError (specified outcome)')
  L = np.asarray(est.components_)
  if not np.isfinite(L).all():
    raise Discard('non-finite components_')
  # calibration done by fit on the training pairs
  dtrain = np.asarray(call('C16/pair_distance/' + name, est.pair_distance, data.pairs))
  ytrain = np.asarray(data.ypairs)
  fc = case['fit_cal'] or dict(strategy='accuracy', beta=1.0, min_rate=None)
  nt, tag = verify(name, dtrain, ytrain, est.threshold_, fc['strategy'], fc.get('beta', 1.0), fc.get('min_rate'), 'fit')
  stats.case(dict(model=m, fit_cal=case['fit_cal']), nt, [name, 'via-fit', 'fit:' + fc['strategy'], tag])
  d = L.shape[1]
  for t in case['tasks']:
    u = np.array(t['u'], dtype=float)
    if not np.any(L.dot(u)):
      u = np.ones(d)
      if not np.any(L.dot(u)):
        stats.discards['direction in the null space of L'] += 1
        continue
    pairs = np.zeros((len(t['ms']), 2, d))
    pairs[:, 1, :] = np.array(t['ms'])[:, None] * u
    if t.get('jitter'):
      # generic (non-representable) coordinates, so that lower-precision storage actually rounds
      jr = np.random.RandomState(len(t['ms']) * 7 + int(abs(t['beta']) * 10) % 13)
      pairs = pairs + jr.rand(*pairs.shape) * 0.37
    pairs = pairs.astype(t.get('vdtype', 'float64'))
    y = np.array(t['labels'])
    dist = np.asarray(call('C16/pair_distance/' + name, est.pair_distance, pairs))
    if not np.isfinite(dist).all():
      stats.discards['non-finite validation distance'] += 1
      continue
    s = t['strategy']
    kw = dict(strategy=s)
    if s == 'f_beta':
      kw['beta'] = t['beta']
    if s in ('max_tpr', 'max_tnr'):
      kw['min_rate'] = t['min_rate']
    old = est.threshold_
    for bad in BAD[:3]:
      r = call('C16/calibrate-bad/' + name, est.calibrate_threshold, pairs, y, expect=(ValueError,), **bad)
      if not isinstance(r, ValueError) or est.threshold_ != old:
        raise Violation('C16/invalid-params-accepted/calibrate/' + name, '%r' % (bad,))
    r = call('C16/calibrate_threshold/%s/%s' % (s, name), est.calibrate_threshold, pairs, y, **kw)
    if r is not est:
      raise Violation('C16/calibrate-returns-self/' + name, repr(r))
    pred = np.asarray(call('C16/predict/' + name, est.predict, pairs))
    if not np.array_equal(pred, np.where(dist <= est.threshold_, 1, -1)):
      raise Violation('C16/predict-vs-threshold/' + name, 'predict disagrees with threshold_ (C04)')
    nt, tag = verify(name, dist, y, est.threshold_, s, t['beta'], t['min_rate'], 'calibrate')
    stats.case(dict(model=m, task=t), nt, [name, s, tag, 'valid-dtype:' + t.get('vdtype', 'float64')])


CHECKS = {'check_c16': check_c16}
_B = {'quick': (50, 16), 'thorough': (800, 30)}


def shards(tier):
  reps = {'quick': 5, 'thorough': 5}[tier]
  return [dict(name='%s-%d' % (n, i), est=n) for n in NAMES for i in range(reps)]


def run_shard(shard, tier, seed, stats, known_sigs):
  n, nt = _B[tier]
  return drive(check_c16, case_strategy(shard['est'], nt), n, seed, stats, known_sigs, name='check_c16')
