"""C20 - PSD matrices are converted, validated and initialised as documented."""
import math

import numpy as np
from hypothesis import strategies as st

from ..common import Violation, Discard, call, ml, mlsub, EPS, recorded_warnings
from ..hyp import drive
from .. import estimators as E, gen

RULE = ('CONVERT: symmetric matrices B diag(w) B^T of size 1..8 with Hypothesis-drawn spectra (full rank, exact zeros, '
        'diagonal, slightly negative within/outside tol, clearly indefinite, up to 14 decades) x tol in {None, 0, '
        'relative 1e-12..1e-2} x asymmetric perturbations; the clause asserted is chosen from the COMPUTED spectrum. '
        'PRIOR: LSML(tol=1e300) and ITML(inactive bounds) return their prior, MMC(diagonal=True, max_iter=0) the '
        'diagonal of its init - compared with the harness construction of identity / covariance of the distinct '
        'points (pseudo-inverse) / make_spd_matrix(seed) / given array; bad arrays (asymmetric, wrong shape, '
        'indefinite, singular for strict learners) must raise ValueError. INIT: LMNN(max_iter=0) and NCA/MLKR with '
        'zero L-BFGS iterations return the initial transformation - compared with eye / RandomState(seed).randn / '
        'own PCA / sklearn LDA scalings / given array / the auto rule. Non-trivial = matrix not diagonal-PD, or '
        'option != identity; distinct by canonical case.')
ASSUMPTIONS = ['acceptance asserted when computed lambda_min >= -tol_eff/4, NonPSDError when lambda_min <= '
               '-max(10 tol_eff, 1e-8 lambda_max); the band between is counted as boundary and nothing is asserted',
               'pca/lda rows compared up to sign; pca only when the relative eigen-gap around the cut exceeds 1e-6',
               'auto rule asserted as lda if k <= min(d, n_classes-1) (classification), else pca if k < min(d, n), else identity']


# ------------------------------------------------------------------------------------- conversion

@st.composite
def convert_case(draw):
  d = draw(st.integers(1, 8))
  cls = draw(st.sampled_from(['full', 'rankdef', 'diagonal', 'diag-rankdef', 'near-in', 'near-out', 'indefinite',
                              'wide', 'asym', 'diag-neg', 'int-diagonal', 'int-gram']))
  logs = [draw(st.floats(-7, 7, allow_nan=False)) for _ in range(d)]
  w = [10.0 ** v for v in logs]
  if cls in ('full', 'diagonal'):
    w = [10.0 ** (v / 4) for v in logs]
  tol = draw(st.sampled_from(['none', 'zero', 'rel']))
  trel = 10.0 ** draw(st.integers(-12, -2))
  r = draw(st.integers(0, max(0, d - 1)))
  return dict(kind='convert', d=d, cls=cls, w=w, bseed=draw(st.integers(0, 10 ** 6)), tol=tol, trel=trel, r=r,
              f32=draw(st.integers(0, 3)) == 0,
              frac=draw(st.floats(0.0, 1.0, allow_nan=False)), neg=10.0 ** draw(st.floats(-7, 0, allow_nan=False)))


def build_matrix(case):
  d, cls = case['d'], case['cls']
  w = np.array(case['w'], dtype=float)
  wmax = w.max()
  tol_abs = None if case['tol'] == 'none' else 0.0 if case['tol'] == 'zero' else case['trel'] * wmax
  if cls in ('rankdef', 'diag-rankdef'):
    w[:max(1, case['r'])] = 0.0 if d > 1 else w[0]
  if cls == 'near-in':
    t = tol_abs if tol_abs else wmax * d * EPS
    w[0] = -case['frac'] * t / 10
  if cls == 'near-out':
    t = tol_abs if tol_abs else wmax * d * EPS
    w[0] = -(20 + 100 * case['frac']) * max(t, 1e-8 * wmax)
  if cls in ('indefinite', 'diag-neg'):
    w[0] = -case['neg'] * wmax
  if cls in ('int-diagonal', 'int-gram'):
    rsi = np.random.RandomState(case['bseed'])
    if cls == 'int-diagonal':
      M = np.diag(rsi.randint(0, 10, size=d)).astype(np.int64)
    else:
      G = rsi.randint(-3, 4, size=(max(1, case['r']), d))
      M = G.T.dot(G).astype(np.int64)          # exactly PSD, rank <= r, integer dtype
    return M, tol_abs
  if cls in ('diagonal', 'diag-rankdef', 'diag-neg'):
    M = np.diag(w)
  else:
    rs = np.random.RandomState(case['bseed'])
    B, _ = np.linalg.qr(rs.randn(d, d))
    M = (B * w).dot(B.T)
    M = (M + M.T) / 2
  if cls == 'asym' and d > 1:
    M = M.copy()
    M[0, 1] += max((1e-3 + case['frac']) * np.abs(M).max(), 1e-5)   # far above np.allclose's rtol 1e-5 / atol 1e-8
  return M, tol_abs


def check_convert(case, stats):
  U = mlsub('_util')
  NonPSD = mlsub('exceptions').NonPSDError
  M, tol_abs = build_matrix(case)
  d = case['d']
  eps_in = EPS
  if case.get('f32') and case['cls'] in ('full', 'rankdef', 'diagonal', 'diag-rankdef', 'indefinite', 'wide') and d >= 3:
    # the same matrix stored in single precision: the documented default tolerance then uses float32's eps
    M = M.astype(np.float32)
    M = (M + M.T) / 2
    eps_in = float(np.finfo(np.float32).eps)
  args = (M.copy(),) if tol_abs is None else (M.copy(), tol_abs)
  M = M.astype(float)
  if not np.any(M):
    raise Discard('zero matrix')
  sym = np.allclose(M, M.T)
  if case['cls'] == 'asym' and d > 1:
    r = call('C20/convert/asymmetric', U.components_from_metric, *args, expect=(ValueError,))
    if not isinstance(r, ValueError):
      raise Violation('C20/convert/asymmetric-accepted', 'asymmetry %g accepted' % np.abs(M - M.T).max())
    stats.case(case, True, ['convert', 'asym'])
    return
  w = np.linalg.eigvalsh(M)
  lmin, lmax = float(w.min()), float(np.abs(w).max())
  if lmax < 1e-250:
    raise Discard('spectrum in the subnormal range')
  tol_eff = tol_abs if tol_abs is not None else lmax * d * eps_in
  if eps_in != EPS and tol_abs is not None and tol_abs < 64 * d * eps_in * lmax:
    raise Discard('explicit tolerance below single-precision resolution')
  r = call('C20/convert/' + case['cls'], U.components_from_metric, *args, expect=(ValueError,))
  clause = 'boundary'
  normM = float(np.linalg.norm(M, 2)) if d else 0.0
  if lmin >= -tol_eff / 4 and not (tol_eff < 32 * d * eps_in * lmax and lmin < 8 * d * eps_in * lmax and tol_abs is not None):
    clause = 'accept'
    if isinstance(r, Exception):
      raise Violation('C20/convert/psd-rejected/' + case['cls'], 'lambda_min=%g lambda_max=%g tol=%r: %r' % (lmin, lmax, tol_abs, r))
  elif lmin <= -max(10 * tol_eff, 1e-8 * lmax, 64 * d * eps_in * lmax if eps_in != EPS else 0.0):
    clause = 'reject'
    if not isinstance(r, NonPSD):
      raise Violation('C20/convert/indefinite-accepted/' + case['cls'], 'lambda_min=%g lambda_max=%g tol=%r: %s'
                      % (lmin, lmax, tol_abs, type(r).__name__))
  if not isinstance(r, Exception):
    L = np.asarray(r)
    if L.ndim != 2 or L.shape[1] != d or not np.isfinite(L).all() or not np.isrealobj(L):
      raise Violation('C20/convert/shape', 'L shape %s dtype %s' % (L.shape, L.dtype))
    Lq = L.astype(np.longdouble)
    err = float(np.abs((Lq.T.dot(Lq)).astype(float) - M).max())
    bound = 80 * d * eps_in * normM + max(0.0, -lmin) * 1.01 + 1e-300
    if err > bound:
      raise Violation('C20/convert/LtL-differs/' + case['cls'], 'max|L^T L - M| = %g > %g (lambda_min %g, ||M|| %g)' % (err, bound, lmin, normM))
  diag_pd = case['cls'] == 'diagonal'
  stats.case(case, not diag_pd, ['convert', 'convert:' + case['cls'], 'clause:' + clause, 'tol:' + case['tol'],
                                 'dtype:float32' if eps_in != EPS else 'dtype:float64'])


# ------------------------------------------------------------------------------------- priors

PRIOR_LEARNERS = ['LSML', 'ITML', 'MMC', 'SDML']


@st.composite
def prior_case(draw):
  name = draw(st.sampled_from(PRIOR_LEARNERS))
  desc = draw(gen.dataset_desc(dmax=6))
  desc['cond'] = draw(st.sampled_from([1, 10, 100, 1000, 10000]))     # covariance spectra over up to 8 decades
  opt = draw(st.sampled_from(['identity', 'covariance', 'random', 'array', 'array-diagonal', 'array-int', 'array-f32', 'array-singular', 'array-asym',
                              'array-shape', 'array-indefinite', 'covariance-singular', 'bad-string']))
  return dict(kind='prior', est=name, desc=desc, opt=opt, seed=draw(st.integers(0, 10 ** 6)),
              aseed=draw(st.integers(0, 999)), cond=draw(st.sampled_from([1.0, 1e2, 1e4, 1e6])),
              coarse=draw(st.integers(0, 3)) == 0)


def oracle_prior(opt, d, points, seed, arr):
  if opt == 'identity':
    return np.eye(d)
  if opt == 'covariance':
    X = np.unique(points.reshape(-1, d), axis=0)
    mu = X.mean(axis=0)
    C = (X - mu).T.dot(X - mu) / (len(X) - 1)
    return C        # caller compares through Moore-Penrose conditions
  if opt == 'random':
    from sklearn.datasets import make_spd_matrix
    return make_spd_matrix(d, random_state=seed)
  return arr


def check_prior(case, stats):
  name, opt = case['est'], case['opt']
  data = gen.Data(case['desc'])
  d = data.d
  kind = E.KIND[name]
  strict = name in ('LSML', 'ITML', 'SDML')
  pname = 'init' if name == 'MMC' else 'prior'
  arr = None
  if opt.startswith('array'):
    arr = gen.spd_from_seed(d, case['aseed'], cond=case['cond'])
    if opt == 'array-singular':
      # exactly singular PSD: a zero row/column (an eigenvalue that is 0 without rounding noise)
      j = case['aseed'] % d
      arr = arr.copy()
      arr[j, :] = 0.0
      arr[:, j] = 0.0
    elif opt == 'array-diagonal':
      arr = np.diag(np.diag(arr))
    elif opt == 'array-int':
      # an integer-valued SPD matrix stored with an integer dtype (diagonally dominant)
      rsi = np.random.RandomState(case['aseed'])
      off = rsi.randint(-1, 2, size=(d, d))
      off = np.triu(off, 1)
      arr = (off + off.T + np.diag(np.full(d, d + 1) + rsi.randint(0, 3, size=d))).astype(np.int64)
    elif opt == 'array-f32':
      arr = arr.astype(np.float32)
      arr = ((arr + arr.T) / 2).astype(np.float32)
    elif opt == 'array-asym':
      arr = arr.copy()
      arr[0, d - 1] += 0.5 * np.abs(arr).max()
    elif opt == 'array-shape':
      arr = gen.spd_from_seed(d + 1, case['aseed'])
    elif opt == 'array-indefinite':
      wv, V = np.linalg.eigh(arr)
      wv[0] = -0.1 * wv[-1]
      arr = (V * wv).dot(V.T)
      arr = (arr + arr.T) / 2
  if arr is not None and case['aseed'] % 2 == 1:
    arr = np.asfortranarray(arr)           # same matrix, column-major memory layout
  X = data.X.copy()
  if case.get('coarse'):
    # points on a coarse grid: distinct training points share single coordinates, tuples share points
    step = float(np.abs(X).max()) / 4.0
    X = np.round(X / step) * step
  if opt == 'covariance-singular':
    X[:, -1] = X[:, 0] * 2.0       # linearly dependent feature -> singular covariance
  if kind == 'pairs':
    T = X[data.pairs_idx[0]]
    yy = data.ypairs
  else:
    T = X[data.quads_idx]
    yy = None
  if case.get('coarse'):
    members = [(0, 1)] if kind == 'pairs' else [(0, 1), (2, 3)]
    # tuples whose compared pair collapsed under the rounding are dropped (zero distance: outside the learners' domain)
    keep = np.ones(len(T), dtype=bool)
    for a_, b_ in members:
      keep &= np.abs(T[:, a_] - T[:, b_]).max(axis=1) > 0
    T = T[keep]
    if yy is not None:
      yy = np.asarray(yy)[keep]
    if len(T) < 4 or (yy is not None and len(set(yy.tolist())) < 2):
      raise Discard('rounding to the coarse grid collapsed too many tuples')
  if case.get('coarse') and opt == 'covariance':
    Xu = np.unique(T.reshape(-1, d), axis=0)
    wc = np.linalg.eigvalsh(np.atleast_2d(np.cov(Xu, rowvar=False))) if len(Xu) > 1 else np.zeros(1)
    if wc.min() <= 1e-6 * max(wc.max(), 1e-300):
      raise Discard('coarse grid made the covariance of the distinct points (nearly) singular')
    stats.classes['prior:covariance-on-coarse-grid'] += 1
  value = {'bad-string': 'not-an-option', 'covariance-singular': 'covariance'}.get(opt, arr if arr is not None else opt)
  base = dict(preprocessor=None)
  if name == 'LSML':
    params = dict(prior=value, tol=1e300, max_iter=5, random_state=case['seed'])   # any gradient norm is below tol: no update
    fargs = (T,)
  elif name == 'ITML':
    params = dict(prior=value, max_iter=1, random_state=case['seed'])
    fargs = (T, yy)
  elif name == 'MMC':
    params = dict(init=value, diagonal=True, max_iter=0, random_state=case['seed'])
    fargs = (T, yy)
  else:
    params = dict(prior=value, random_state=case['seed'], balance_param=1e-9, sparsity_param=1e-9)
    fargs = (T, yy)
  est = E.build(name, params)
  kw = {}
  if name == 'ITML':
    diam = float(np.abs(T).max()) * 4 * math.sqrt(d) + 1.0
    kw['bounds'] = np.array([1e12 * diam ** 2, 1e-12])    # every constraint inactive under any prior below
  bad = opt in ('array-asym', 'array-shape', 'array-indefinite', 'bad-string') or \
      (strict and opt in ('array-singular', 'covariance-singular'))
  with recorded_warnings() as wlist:
    r = call('C20/prior/%s/%s' % (name, opt), est.fit, *fargs, expect=(ValueError, RuntimeError) if name == 'SDML' else (ValueError,), **kw)
  tag = '%s/%s' % (name, opt)
  if bad:
    if not isinstance(r, ValueError):
      if opt == 'array-singular':
        # (SDML may go on to fail inside the graphical lasso with a RuntimeError: the prior was accepted all the same)
        # discriminating predicate of known finding KF2: the symmetric eigen-solver returned the exactly zero
        # eigenvalue as noise above the documented tolerance d * eps * lambda_max
        from scipy.linalg import eigh
        wv = eigh(arr, check_finite=False)[0]      # same routine as the library (eigenvectors requested)
        if np.abs(wv).min() >= np.abs(wv).max() * d * EPS:
          raise Violation('C20/prior/bad-accepted/%s/eigen-noise-above-tol' % tag,
                          'exactly singular prior accepted: computed |lambda|_min = %g >= tolerance %g'
                          % (np.abs(wv).min(), np.abs(wv).max() * d * EPS))
      raise Violation('C20/prior/bad-accepted/' + tag, 'fit accepted %s=%s' % (pname, opt))
    stats.case(case, True, ['prior', 'prior:' + opt, name, 'rejected'])
    return
  if isinstance(r, RuntimeError):
    raise Discard('SDML RuntimeError (specified outcome)')
  if isinstance(r, ValueError):
    raise Violation('C20/prior/good-rejected/' + tag, 'fit rejected %s=%s: %r' % (pname, opt, r))
  if name == 'SDML':
    # SDML cannot return its prior; with vanishing balance/sparsity its optimum is the prior itself (M = S^-1)
    pass
  if name == 'SDML':
    # SDML never returns its prior: only the accept/reject clauses are observable here (its use of the
    # prior inverse is decided by C13)
    stats.case(case, opt != 'identity', ['prior', 'prior:' + opt, name, 'accepted'])
    return
  M = est.get_mahalanobis_matrix()
  ref = oracle_prior('covariance' if opt == 'covariance-singular' else ('array' if arr is not None else opt), d, T, case['seed'],
                     None if arr is None else np.asarray(arr, dtype=float))
  if opt in ('covariance', 'covariance-singular'):
    C = ref
    cn = np.linalg.norm(C, 2)
    if name == 'MMC':
      # only the diagonal of the pseudo-inverse is observable
      P = np.linalg.pinv(C, hermitian=True)
      if not np.allclose(np.diag(M), np.diag(P), rtol=1e-6, atol=1e-9 * np.abs(P).max()):
        raise Violation('C20/prior/covariance-diag/' + tag, 'diag(M)=%s vs diag(pinv(cov))=%s' % (np.diag(M), np.diag(P)))
      if opt == 'covariance-singular' and not any('pseudo-inverse' in str(x.message) for x in wlist):
        raise Violation('C20/prior/covariance-singular-no-warning/' + tag, '')
    else:
      mn = np.linalg.norm(M, 2)
      tolr = 1e-7 if name != 'SDML' else 1e-3
      c1 = np.linalg.norm(C.dot(M).dot(C) - C, 2) / cn
      c2 = np.linalg.norm(M.dot(C).dot(M) - M, 2) / mn
      if c1 > tolr * np.linalg.cond(C) or c2 > tolr * np.linalg.cond(C):
        raise Violation('C20/prior/covariance-inverse/' + tag, 'Moore-Penrose residuals %g %g (cond %g)' % (c1, c2, np.linalg.cond(C)))
  else:
    if name == 'MMC':
      got, want = np.diag(M), np.diag(ref)
    else:
      got, want = M, ref
    rtol = 1e-3 if name == 'SDML' else (1e-5 if opt == 'array-f32' else 1e-9) * max(1.0, np.linalg.cond(ref))
    if opt == 'identity' and name in ('LSML', 'ITML', 'MMC') and not np.array_equal(got, want):
      raise Violation('C20/prior/identity-not-exact/' + tag, '%r' % (got,))
    if not np.allclose(got, want, rtol=rtol, atol=rtol * np.abs(want).max()):
      raise Violation('C20/prior/value/' + tag, 'learned-with-no-update M = %r, documented %s = %r' % (got, pname, want))
    if opt == 'random':
      est2 = E.build(name, params)
      call('C20/prior/refit', est2.fit, *fargs, **kw)
      if not np.array_equal(est2.get_mahalanobis_matrix(), M):
        raise Violation('C20/prior/random-not-reproducible/' + tag, 'same integer seed, different prior')
  stats.case(case, opt != 'identity', ['prior', 'prior:' + opt, name])


# ------------------------------------------------------------------------------------- transformation inits

@st.composite
def init_case(draw):
  name = draw(st.sampled_from(['LMNN', 'NCA', 'MLKR']))
  desc = draw(gen.dataset_desc(dmax=6))
  d = desc['d']
  opt = draw(st.sampled_from(['auto', 'pca', 'lda', 'identity', 'random', 'array', 'array-wrong-d', 'array-wrong-k',
                              'array-too-tall', 'bad-string']))
  k = draw(st.one_of(st.none(), st.integers(1, d)))
  return dict(kind='init', est=name, desc=desc, opt=opt, k=k, seed=draw(st.integers(0, 10 ** 6)), aseed=draw(st.integers(0, 999)))


def pca_axes(X, k):
  mu = X.mean(axis=0)
  C = (X - mu).T.dot(X - mu) / (len(X) - 1)
  w, V = np.linalg.eigh(C)
  order = np.argsort(-w)
  w, V = w[order], V[:, order]
  gaps_ok = all(abs(w[i] - w[i + 1]) > 1e-6 * w[0] for i in range(min(k, len(w) - 1)))
  return V[:, :k].T, gaps_ok


def rows_equal_up_to_sign(A, B, rtol):
  if A.shape != B.shape:
    return False
  for a, b in zip(A, B):
    s = max(np.abs(b).max(), 1e-300)
    if not (np.abs(a - b).max() <= rtol * s or np.abs(a + b).max() <= rtol * s):
      return False
  return True


def check_init(case, stats):
  name, opt, k = case['est'], case['opt'], case['k']
  data = gen.Data(case['desc'])
  d, n = data.d, data.n
  kk = d if k is None else k
  nc = data.n_classes
  classif = name != 'MLKR'
  y = data.y if classif else data.yreal
  value = opt
  arr = None
  if opt == 'array':
    arr = gen.transform_from_seed(kk, d, case['aseed'])
  elif opt == 'array-wrong-d':
    arr = gen.transform_from_seed(kk, d + 1, case['aseed'])
  elif opt == 'array-wrong-k':
    if k is None or d == 1:
      raise Discard('array-wrong-k needs an explicit n_components')
    arr = gen.transform_from_seed(kk + 1 if kk < d else kk - 1, d, case['aseed'])
    if arr.shape[0] == 0:
      raise Discard('empty init')
  elif opt == 'array-too-tall':
    arr = gen.transform_from_seed(d + 1, d, case['aseed'])
  if arr is not None:
    value = arr
  if opt == 'bad-string':
    value = 'not-an-option'
  if name == 'LMNN':
    params = dict(init=value, n_components=k, max_iter=0, n_neighbors=2, random_state=case['seed'])
  else:
    params = dict(init=value, n_components=k, max_iter=1, tol=1e10, random_state=case['seed'])
  est = E.build(name, params)
  arr_before = None if arr is None else arr.copy()
  r = call('C20/init/%s/%s' % (name, opt), est.fit, data.X, y, expect=(ValueError,))
  tag = '%s/%s' % (name, opt)
  lda_ok = classif and kk <= min(d, nc - 1)
  bad = opt in ('array-wrong-d', 'array-wrong-k', 'array-too-tall', 'bad-string') or (opt == 'lda' and not classif)
  if opt == 'lda' and classif and not lda_ok:
    stats.discards['lda with n_components > n_classes-1 (not realisable by scikit-learn LDA)'] += 1
    return
  if bad:
    if not isinstance(r, ValueError):
      raise Violation('C20/init/bad-accepted/' + tag, 'fit accepted init=%s (k=%r, d=%d)' % (opt, k, d))
    stats.case(case, True, ['init', 'init:' + opt, name, 'rejected'])
    return
  if isinstance(r, ValueError):
    raise Violation('C20/init/good-rejected/' + tag, 'k=%r d=%d: %r' % (k, d, r))
  if name != 'LMNN' and getattr(est, 'n_iter_', None) not in (0,):
    # L-BFGS made progress despite tol=1e10: the zero-iteration observation is not available
    nit = est.n_iter_
  L = np.asarray(est.components_)
  if name != 'LMNN':
    # NCA stores opt_result.nit; MLKR counts function evaluations; zero optimiser iterations <=> x == x0, which we
    # can only establish by comparing with the documented initialisation below
    pass
  if L.shape != (kk, d):
    eff_ = opt if opt != 'auto' else ('lda' if lda_ok else None)
    if eff_ == 'lda' and L.shape[1] == d and L.shape[0] < kk and E.lda_rank_short(data.X, y, kk):
      raise Violation('C20/init/shape/%s/lda-rank-short' % name,
                      '%s, expected %s: scikit-learn LDA returns only %d discriminant directions for this data' % (L.shape, (kk, d), L.shape[0]))
    raise Violation('C20/init/shape/' + tag, '%s, expected %s' % (L.shape, (kk, d)))
  eff = opt
  if opt == 'auto':
    eff = 'lda' if lda_ok else ('pca' if kk < min(d, n) else 'identity')
  if eff == 'identity':
    want, ok = np.eye(kk, d), None
    ok = np.array_equal(L, want)
  elif eff == 'random':
    want = np.random.RandomState(case['seed']).randn(kk, d)
    ok = np.array_equal(L, want)
  elif eff == 'array':
    want = arr_before
    ok = np.array_equal(L, want) and np.array_equal(arr, arr_before)
  elif eff == 'pca':
    want, gaps = pca_axes(data.X, kk)
    if not gaps:
      raise Discard('pca eigen-gap too small for a sign-only comparison')
    ok = rows_equal_up_to_sign(L, want, 1e-6)
  else:
    from sklearn.discriminant_analysis import LinearDiscriminantAnalysis
    lda = LinearDiscriminantAnalysis(n_components=kk).fit(data.X, data.y)
    want = lda.scalings_.T[:kk]
    ok = rows_equal_up_to_sign(L, want, 1e-8)
  if not ok:
    raise Violation('C20/init/value/%s/%s' % (tag, eff), 'k=%r d=%d n_classes=%d: components_ with zero iterations = %r, documented init (%s) = %r'
                    % (k, d, nc, L, eff, want))
  stats.case(case, eff != 'identity', ['init', 'init:' + opt, 'effective:' + eff, name])


CHECKS = {'check_convert': check_convert, 'check_prior': check_prior, 'check_init': check_init}
_STR = {'check_convert': convert_case, 'check_prior': prior_case, 'check_init': init_case}
_B = {'quick': dict(check_convert=2400, check_prior=480, check_init=480),
      'thorough': dict(check_convert=100000, check_prior=20000, check_init=20000)}


def shards(tier):
  out = []
  for c in CHECKS:
    per = 6 if c == 'check_convert' else 5
    for i in range(per):
      out.append(dict(name='%s-%d' % (c, i), check=c, n=_B[tier][c] // per))
  return out


def run_shard(shard, tier, seed, stats, known_sigs):
  c = shard['check']
  return drive(CHECKS[c], _STR[c](), shard['n'], seed, stats, known_sigs, name=c)
