"""C06 - malformed input is always rejected with ValueError; equivalent array-likes are equivalent."""
import itertools

import numpy as np
from hypothesis import strategies as st

from ..common import Violation, Discard, call, bits_equal
from ..hyp import drive, run_explicit
from .. import estimators as E, gen

RULE = ('ENUMERATED: 17 estimators x applicable methods of {fit, transform, pair_distance, pair_score, score_pairs, '
        'predict, decision_function, score, calibrate_threshold} x {no preprocessor, array preprocessor} x the '
        'malformation grammar (ndim 0..4 off the documented one, tuple size 1..5 != expected, zero samples, zero '
        'features, NaN/+inf/-inf (also inside a point whose label is unknown), str / object dtype, ragged nested list, feature count d+-1 / 1 / 2d, NaN / +inf / -inf reached through '
        'the preprocessor, pair labels {0,2,-2,0.5,"a"}, label-length mismatch, n_components in {0,-1,d+1}) - every '
        'cell once; GENERATED: Hypothesis draws the cell plus the size of the otherwise well-formed input and the '
        'position of the bad entry; EQUIVALENCE: integral training/query data as list / int32 / int64 / Fortran / '
        'non-contiguous vs float64 C array; FUZZ (thorough tier): 16 atheris/libFuzzer campaigns (empty corpus and a 3-input corpus) decode bytes into nested lists of float/int/None/str/nan/inf (structured and free modes) for 6 fitted estimators, with an independent well-formedness predicate as oracle. Every enumerated cell is a distinct non-trivial case; generated cases '
        'are distinct by (cell, size, position).')
ASSUMPTIONS = ['with a preprocessor, 1-D (points) / 2-D (tuples) inputs are indicators by definition and are not malformed',
               'non-numeric means strings that do not parse as numbers; one tuple is a valid sample count',
               'pair-label alphabet is asserted for fit and calibrate_threshold (whose docs require +1/-1), not for score',
               'equivalence of fitted models: deviation <= 1e-9 relative, or explained by a noise-floor control (3 refits on data perturbed by 1e-10 / 1e-9 relative; violation only above 100x the control): iterative learners amplify one-ulp BLAS differences between memory layouts (observed 2e-7 .. 1e-3 for MLKR on flat optima); query outputs of one fitted model at 1e-9']
EXHAUSTIVE = True

DESC0 = dict(d=3, sizes=[6, 6], seed=11, logscale=0, cond=1, sep=1.0, labels='range', grid=False)
POINT_METHODS = ['transform']
PAIR_METHODS = ['pair_distance', 'pair_score', 'score_pairs']
TUPLE_METHODS = ['predict', 'decision_function', 'score']

FORM_MALF = ['scalar', 'ndim-1', 'ndim+1', 'ndim+2', 'zero-samples', 'zero-features', 'nan', 'inf', '-inf',
             'str', 'object', 'ragged', 'features-1', 'features+1', 'features=1', 'features=2d', 'tuple1', 'tuple2', 'tuple3', 'tuple4', 'tuple5']
IDX_MALF = ['idx-tuple1', 'idx-tuple2', 'idx-tuple3', 'idx-tuple4', 'idx-tuple5', 'idx-zero-samples',
            'idx-nan-row', 'idx-inf-row', 'idx--inf-row', 'idx-ndim+2']
Y_MALF = ['y-short', 'y-long', 'y-label-0', 'y-label-2', 'y-label--2', 'y-label-0.5', 'y-label-a']
NC_MALF = ['n_components=0', 'n_components=-1', 'n_components=d+1']
UNL_MALF = ['nan-in-unlabeled-point', 'inf-in-unlabeled-point']


def methods_of(name):
  ms = ['fit'] + POINT_METHODS + PAIR_METHODS
  if name in E.TUPLE_LEARNERS:
    ms += TUPLE_METHODS
  if name in E.PAIRS:
    ms += ['calibrate_threshold']
  return ms


def input_kind(name, method):
  """('points'|'tuples', tuple_size, needs_y)"""
  if method == 'fit':
    k = E.KIND[name]
    if k in E.TUPLE_SIZE:
      return 'tuples', E.TUPLE_SIZE[k], k == 'pairs'
    return 'points', None, k != 'X'
  if method in POINT_METHODS:
    return 'points', None, False
  if method in PAIR_METHODS:
    return 'tuples', 2, False
  if method == 'calibrate_threshold':
    return 'tuples', 2, True
  ts = E.TUPLE_SIZE[E.KIND[name]]
  return 'tuples', ts, (method == 'score' and ts == 2)


def applicable(name, method, preproc, malf):
  kind, ts, needs_y = input_kind(name, method)
  if malf in UNL_MALF:
    return method == 'fit' and name in E.SUPERVISED
  if malf in NC_MALF:
    return method == 'fit' and 'n_components' in E.option_space(name, 3, 2)
  if malf in Y_MALF:
    if not needs_y:
      return False
    if malf.startswith('y-label'):
      return kind == 'tuples' and ts == 2 and method in ('fit', 'calibrate_threshold')
    return True
  if malf in IDX_MALF:
    if not preproc:
      return False
    if malf.startswith('idx-tuple'):
      return kind == 'tuples' and int(malf[-1]) != ts
    return True
  if malf.startswith('tuple'):
    return kind == 'tuples' and int(malf[-1]) != ts
  if malf in ('features-1', 'features+1', 'features=1', 'features=2d'):
    return method != 'fit'
  if malf == 'ndim-1' and preproc:
    return False      # indicators by definition
  if malf == 'ndim-1' and kind == 'points':
    return True
  return True


def cells(name):
  out = []
  for method in methods_of(name):
    for preproc in (False, True):
      for malf in FORM_MALF + IDX_MALF + Y_MALF + NC_MALF + UNL_MALF:
        if applicable(name, method, preproc, malf):
          out.append(dict(est=name, method=method, preproc=preproc, malf=malf, n=4, pos=0))
  return out


_CACHE = {}


def fitted(name, preproc):
  key = (name, preproc)
  if key not in _CACHE:
    data = gen.Data(DESC0)
    rs = np.random.RandomState(5)
    pool = np.vstack([data.X, rs.randn(3, data.d)])
    pool_nan = pool.copy()
    # the array preprocessor holds ONE non-finite entry (its last row): NaN, or only +inf / only -inf
    pool_nan[-1, 1] = {'inf': np.inf, '-inf': -np.inf}.get(preproc, np.nan)
    extra = {'preprocessor': pool_nan} if preproc else {}
    params = E.materialize(name, {}, data, 0, extra)
    est = E.build(name, params)
    r = call('C06/setup-fit/' + name, est.fit, *E.fit_args(name, data))
    _CACHE[key] = (est, data, params, pool_nan)
  return _CACHE[key]


def well_formed(kind, ts, n, d, rs):
  if kind == 'points':
    return rs.randn(n, d)
  return rs.randn(n, ts, d)


def malform(arr, malf, pos, kind, ts):
  a = np.array(arr, dtype=float)
  flat_pos = pos % a.size
  if malf == 'scalar':
    return 1.0
  if malf == 'ndim-1':
    return a[0]
  if malf == 'ndim+1':
    return a[None]
  if malf == 'ndim+2':
    return a[None, None]
  if malf == 'zero-samples':
    return a[:0]
  if malf == 'zero-features':
    return a[..., :0]
  if malf in ('nan', 'inf', '-inf'):
    a.flat[flat_pos] = {'nan': np.nan, 'inf': np.inf, '-inf': -np.inf}[malf]
    return a
  if malf == 'str':
    s = a.astype(str)
    s.flat[flat_pos] = 'a'
    return s
  if malf == 'object':
    o = a.astype(object)
    o.flat[flat_pos] = 'x1'
    return o
  if malf == 'ragged':
    l = a.tolist()
    row = l[pos % len(l)]
    if kind == 'points':
      row.append(1.0)
    else:
      row[0].append(1.0)
    return l
  if malf == 'features-1':
    return a[..., :-1]
  if malf == 'features+1':
    return np.concatenate([a, a[..., :1]], axis=-1)
  if malf == 'features=1':
    return a[..., :1]          # a single feature: broadcasting-prone
  if malf == 'features=2d':
    return np.concatenate([a, a], axis=-1)
  if malf.startswith('tuple'):
    s = int(malf[-1])
    reps = np.concatenate([a] * 3, axis=1)
    return reps[:, :s]
  raise KeyError(malf)


def check_cell(case, stats):
  name, method, preproc, malf = case['est'], case['method'], case['preproc'], case['malf']
  n, pos = case.get('n', 4), case.get('pos', 0)
  est, data, params, pool = fitted(name, {'idx-inf-row': 'inf', 'idx--inf-row': '-inf'}.get(malf, preproc))
  d = data.d
  kind, ts, needs_y = input_kind(name, method)
  rs = np.random.RandomState(1000 + pos)
  if method == 'fit':
    # a fresh estimator and its own well-formed training input
    fa = list(E.fit_args(name, data))
    target = E.build(name, params)
    base = np.asarray(fa[0], dtype=float)
    y = fa[1] if len(fa) > 1 else None
  else:
    target = est
    base = well_formed(kind, ts, n, d, rs)
    y = np.where(np.arange(n) % 2 == 0, 1, -1) if needs_y else None
  args = None
  if malf in UNL_MALF:
    # a point whose label is unknown (-1) is still part of the data: non-finite entries there must be rejected too
    j = pos % len(base)
    Xb = base.copy()
    Xb[j, pos % Xb.shape[1]] = np.nan if malf.startswith('nan') else np.inf
    yb = np.array(y).copy()
    yb[j] = -1
    args = [Xb, yb]
  elif malf in NC_MALF:
    p2 = dict(params)
    p2['n_components'] = {'n_components=0': 0, 'n_components=-1': -1, 'n_components=d+1': d + 1}[malf]
    p2.pop('init', None)
    target = E.build(name, p2)
    args = [base] + ([y] if y is not None else [])
  elif malf in Y_MALF:
    yy = np.array(y)
    if malf == 'y-short':
      bad_y = yy[:-1]
    elif malf == 'y-long':
      bad_y = np.concatenate([yy, yy[:1]])
    else:
      val = {'y-label-0': 0, 'y-label-2': 2, 'y-label--2': -2, 'y-label-0.5': 0.5, 'y-label-a': 'a'}[malf]
      bad_y = yy.astype(object) if isinstance(val, str) else yy.astype(float)
      bad_y[pos % len(bad_y)] = val
      if isinstance(val, str):
        bad_y = bad_y.tolist()
    args = [base, bad_y]
  elif malf in IDX_MALF:
    npool = len(pool)
    m = len(base)
    if kind == 'points':
      idx = rs.randint(0, npool - 1, size=m)
    else:
      idx = rs.randint(0, npool - 1, size=(m, ts))
    if malf.startswith('idx-tuple'):
      s = int(malf[-1])
      idx = rs.randint(0, npool - 1, size=(m, s))
    elif malf == 'idx-zero-samples':
      idx = idx[:0]
    elif malf in ('idx-nan-row', 'idx-inf-row', 'idx--inf-row'):
      idx.flat[pos % idx.size] = npool - 1
    elif malf == 'idx-ndim+2':
      idx = idx[None, None]
    args = [idx] + ([y] if y is not None else [])
    if method == 'fit' and y is not None and len(y) != len(idx) and malf != 'idx-zero-samples':
      args = [idx, np.resize(y, len(idx))]
  else:
    bad = malform(base, malf, pos, kind, ts)
    args = [bad] + ([y] if y is not None else [])
    if y is not None and malf == 'zero-samples':
      args = [bad, np.asarray(y)[:0]]
  sig = 'C06/%s/%s/%s' % (method, malf, 'preproc' if preproc else 'plain')
  r = call(sig + '/' + name, getattr(target, method), *args, expect=(ValueError,))
  if not isinstance(r, ValueError):
    raise Violation('C06/accepted/%s/%s/%s' % (method, malf, name), 'malformed input was accepted, returned %r' % (r,))
  stats.case(dict(case), True, [method, malf, name])


# ------------------------------------------------------------------------------------- equivalence

@st.composite
def equiv_case(draw, name):
  m = draw(E.model_desc(name, dmax=4, scales=False))
  return dict(model=m, variant=draw(st.sampled_from(['list', 'int16', 'int32', 'int64', 'fortran', 'strided'])),
              mag=draw(st.sampled_from([16.0, 200.0, 3000.0])),
              q=draw(st.lists(st.lists(st.integers(-20, 20), min_size=m['desc']['d'], max_size=m['desc']['d']),
                              min_size=2, max_size=6)))


def variant_of(arr, v):
  arr = np.asarray(arr, dtype=float)
  if v == 'list':
    return arr.tolist()
  if v in ('int16', 'int32', 'int64'):
    return arr.astype(v)
  if v == 'fortran':
    return np.asfortranarray(arr)
  big = np.zeros(arr.shape[:-1] + (2 * arr.shape[-1],))
  big[..., ::2] = arr
  return big[..., ::2]


def check_equiv(case, stats):
  m = case['model']
  name = m['est']
  v = case['variant']
  data = gen.Data(m['desc'])
  # integral training data (scaled so that classes stay separated and covariances full rank)
  scale = case.get('mag', 16.0) / (np.abs(data.X).max() or 1.0)
  Xi = np.round(data.X * scale)
  if len(np.unique(Xi, axis=0)) < len(Xi) or np.linalg.matrix_rank(Xi - Xi.mean(0)) < data.d:
    raise Discard('rounded data degenerate')
  data.X = Xi
  data._c = {}
  if name in ('SCML_Supervised', 'LMNN', 'LFDA'):
    # neighbour ties leave the choice (and order) of neighbours open: outside the comparison's domain
    D2 = ((Xi[:, None, :] - Xi[None, :, :]) ** 2).sum(-1)
    for i in range(len(Xi)):
      row = np.delete(D2[i], i)
      if len(set(row.tolist())) < len(row):
        raise Discard('neighbour distance tie on integral data')
  params = E.materialize(name, m['opts'], data, m['aseed'])
  A, B = E.build(name, params), E.build(name, params)
  fa = list(E.fit_args(name, data))
  fb = [variant_of(fa[0], v)] + fa[1:]
  exp = (RuntimeError,) if 'SDML' in name else ()
  # the recorded ITML large-scale finding is keyed on the data magnitude
  desc_eff = dict(m['desc'], logscale=1 if case.get('mag', 16.0) >= 100 else m['desc']['logscale'])
  rA = E.fit_call('C06/equiv-fit-float64', name, A, fa, desc_eff, params, expect=exp)
  rB = E.fit_call('C06/equiv-fit-' + v, name, B, fb, desc_eff, params, expect=exp)
  if isinstance(rA, Exception) or isinstance(rB, Exception):
    if type(rA) is not type(rB):
      raise Violation('C06/equiv/fit-outcome/%s/%s' % (v, name), '%r vs %r' % (rA, rB))
    raise Discard('SDML RuntimeError (specified outcome)')
  MA, MB = A.get_mahalanobis_matrix(), B.get_mahalanobis_matrix()
  if MA.shape != MB.shape:
    raise Violation('C06/equiv/fit/%s/%s' % (v, name), 'shapes %s vs %s' % (MA.shape, MB.shape))
  scM = max(np.abs(MA).max(initial=0.0), 1e-300)
  dev = float(np.abs(MA - MB).max(initial=0.0)) / scM
  if dev > 1e-9:
    # memory layout changes BLAS summation order by an ulp, and iterative learners with flat optima amplify that
    # arbitrarily: the deviation is a violation only if it exceeds what <= 1e-9 relative perturbations of the
    # float64 data cause (noise-floor control, as in C19)
    worst = 0.0
    base = np.asarray(fa[0], dtype=float)
    for kk in range(3):
      prs = np.random.RandomState(1234 + kk)
      Xp = base + prs.randn(*base.shape) * np.abs(base).max() * (1e-10 if kk % 2 else 1e-9)
      Cst = E.build(name, params)
      rC = E.fit_call('C06/equiv-fit-control', name, Cst, [Xp] + fa[1:], desc_eff, params, expect=exp)
      if not isinstance(rC, Exception):
        MC = Cst.get_mahalanobis_matrix()
        worst = max(worst, float(np.abs(MC - MA).max(initial=0.0)) / scM if MC.shape == MA.shape else 1.0)
    if dev > 100 * worst + 1e-9:
      raise Violation('C06/equiv/fit/%s/%s' % (v, name), 'M differs by %g relative (perturbation control %g): %r vs %r' % (dev, worst, MA, MB))
    stats.inconclusive['equivalence: deviation explained by <=1e-9 perturbations (iterative learner)'] += 1
  if bits_equal(np.asarray(A.components_), np.asarray(B.components_)):
    stats.notes['fit bitwise equal'] += 1
  q = np.array(case['q'], dtype=float)
  pairs = np.stack([q[:-1], q[1:]], axis=1)
  outs = [('transform', q), ('pair_distance', pairs), ('pair_score', pairs)]
  if name in E.TUPLE_LEARNERS:
    ts = E.TUPLE_SIZE[E.KIND[name]]
    tup = np.stack([np.roll(q, i, axis=0) for i in range(ts)], axis=1)
    outs += [('decision_function', tup), ('predict', tup)]
  for meth, arr in outs:
    oA = np.asarray(call('C06/equiv-%s/%s' % (meth, name), getattr(A, meth), arr))
    oB = np.asarray(call('C06/equiv-%s-%s/%s' % (meth, v, name), getattr(A, meth), variant_of(arr, v)))
    if oA.shape != oB.shape or not np.allclose(oA, oB, rtol=1e-9, atol=1e-9 * (np.abs(oA).max(initial=0.0) + 1e-300)):
      raise Violation('C06/equiv/%s/%s/%s' % (meth, v, name), '%r vs %r' % (oA, oB))
    if bits_equal(oA, oB):
      stats.notes['query bitwise equal'] += 1
  stats.case(case, True, ['equiv', 'equiv:' + v, name])


@st.composite
def gen_cell(draw, name):
  c = dict(draw(st.sampled_from(cells(name))))
  c['n'] = draw(st.integers(1, 6))
  c['pos'] = draw(st.integers(0, 200))
  return c


def check_fuzz_obj(case, stats):
  """replay of a fuzz finding (the decoded object, not the bytes)"""
  from ..fuzz.c06_atheris import check_obj
  cls = check_obj(case['target'], case['obj'])
  stats.case(case, cls != 'bad', ['fuzz', 'fuzz:' + cls])


def run_fuzz(shard, seed, stats, runs):
  """one libFuzzer campaign in a subprocess (libFuzzer never returns); results come back through a JSON file"""
  import json, os, subprocess, sys, tempfile
  try:
    import atheris  # noqa: F401
  except Exception:
    stats.notes['atheris not importable: fuzz tier skipped'] += 1
    return []
  tmp = tempfile.mkdtemp(prefix='c06fuzz_')
  out = os.path.join(tmp, 'out.json')
  corpus = os.path.join(tmp, 'corpus')
  os.makedirs(corpus)
  if shard['i'] % 2:                    # odd workers start from three small valid inputs, even ones from nothing
    for k, blob in enumerate([b'\x00\x00\x09\x02' + b'\x05' * 40, b'\x02\x00\x09\x01' + b'\x07' * 60, b'\x04\x00\x08\x03' + b'\x03' * 90]):
      open(os.path.join(corpus, 'seed%d' % k), 'wb').write(blob)
  try:
    r = subprocess.run([sys.executable, '-m', 'vl.fuzz.c06_atheris', out, str(runs), str(seed % 100000 + 1), corpus],
                       cwd=os.path.dirname(os.path.dirname(os.path.dirname(os.path.abspath(__file__)))),
                       stdout=subprocess.DEVNULL, stderr=subprocess.DEVNULL, timeout=3600)
    res = json.load(open(out)) if os.path.exists(out) else None
  finally:
    import shutil
    shutil.rmtree(tmp, ignore_errors=True)
  if res is None:
    raise RuntimeError('fuzz worker produced no result file (exit %s)' % r.returncode)
  stats.evaluations += res['execs']
  stats.notes['fuzz executions'] += res['execs']
  for k, v in res['classes'].items():
    stats.classes['fuzz:' + k] += v
  for smp in res['samples']:
    stats.case(dict(fuzz=smp), True, [], sample_every=1)
    stats.evaluations -= 1
  if res.get('violation'):
    v = res['violation']
    return [dict(sig=v['sig'], msg=v['msg'], case=v['case'], check='check_fuzz_obj')]
  if r.returncode not in (0,):
    raise RuntimeError('fuzz worker exit code %s' % r.returncode)
  return []


CHECKS = {'check_cell': check_cell, 'check_equiv': check_equiv, 'check_fuzz_obj': check_fuzz_obj}
FUZZ_RUNS = 60000
_B = {'quick': (150, 40), 'thorough': (4000, 300)}


def shards(tier):
  out = []
  for n in E.ALL:
    out.append(dict(name=n + '-enum', est=n, part='enum'))
    out.append(dict(name=n + '-gen', est=n, part='gen'))
    out.append(dict(name=n + '-equiv', est=n, part='equiv'))
  if tier == 'thorough':
    out += [dict(name='fuzz-%02d' % i, part='fuzz', i=i, est=None) for i in range(16)]
  return out


def run_shard(shard, tier, seed, stats, known_sigs):
  ngen, neq = _B[tier]
  if shard['part'] == 'fuzz':
    return run_fuzz(shard, seed, stats, FUZZ_RUNS)
  name = shard['est']
  if shard['part'] == 'enum':
    return run_explicit(check_cell, cells(name), stats, known_sigs, name='check_cell')
  if shard['part'] == 'gen':
    return drive(check_cell, gen_cell(name), ngen, seed, stats, known_sigs, name='check_cell')
  return drive(check_equiv, equiv_case(name), neq, seed, stats, known_sigs, name='check_equiv')
