"""C01 - the learned distance is a finite pseudo-metric; pair_score is the negated distance."""
import math

import numpy as np
from hypothesis import strategies as st

from ..common import Violation, Discard, call, EPS, sigma_max
from ..hyp import drive
from .. import estimators as E, gen

RULE = ('per estimator: Hypothesis model descriptors (dataset descriptor x sampled documented options) '
        'x lists of query triples from forced classes {generic (per-coordinate m*10^e, e in [-100,100]), '
        'dup (x=y, y=z, all equal), collinear (y=(x+z)/2), huge (1e6 x training range), ulp (y = x moved '
        'by one ulp), nullspace (x-y in the null space of L when rank(L)<d)}; both entry points '
        '(pair_distance, get_metric()). Non-trivial = triple has >= 2 distinct points and at least one '
        'non-zero distance; distinct by sha1 of (model, triple).')
ASSUMPTIONS = ['triangle inequality asserted with slack 64 eps sigma_max(L) sqrt(d) (|x-y|+|y-z|+|x-z|) + 1e-150',
               'cases with sigma_max(L) * max|coord| * sqrt(d) >= 1e150 are outside the stated domain (discarded, counted)',
               'SDML RuntimeError on a non-convergent graphical lasso is a specified outcome (model discarded)']

CLASSES = ['generic', 'dup', 'collinear', 'huge', 'ulp', 'nullspace', 'tiny']


@st.composite
def triple(draw, d):
  cls = draw(st.sampled_from(CLASSES))
  t = dict(cls=cls, x=draw(gen.point(d)), z=draw(gen.point(d)))
  if cls == 'generic':
    t['y'] = draw(gen.point(d))
  elif cls == 'dup':
    t['which'] = draw(st.sampled_from(['xy', 'yz', 'xz', 'all']))
    t['y'] = draw(gen.point(d))
  elif cls in ('huge', 'tiny'):
    t['y'] = draw(gen.point(d, max_exp=2))
    t['x'] = draw(gen.point(d, max_exp=2))
    t['z'] = draw(gen.point(d, max_exp=2))
  elif cls == 'ulp':
    t['coord'] = draw(st.integers(0, d - 1))
    t['up'] = draw(st.booleans())
  elif cls == 'nullspace':
    t['t'] = draw(st.floats(-1e3, 1e3, allow_nan=False, width=64))
    t['x'] = draw(gen.point(d, max_exp=3))
    t['z'] = draw(gen.point(d, max_exp=3))
  return t


@st.composite
def case_strategy(draw, name, n_triples):
  m = draw(E.model_desc(name))
  d = m['desc']['d']
  m['f32param'] = draw(st.integers(0, 2)) == 0       # array-valued prior / init stored in single precision
  return dict(model=m, triples=draw(st.lists(triple(d), min_size=max(1, n_triples // 2), max_size=n_triples)))


def realise(t, L, Xtrain):
  d = L.shape[1]
  x = np.array(t['x'], dtype=float)
  z = np.array(t['z'], dtype=float)
  cls = t['cls']
  if cls == 'generic':
    y = np.array(t['y'], dtype=float)
  elif cls == 'dup':
    y = np.array(t['y'], dtype=float)
    w = t['which']
    if w == 'xy':
      y = x.copy()
    elif w == 'yz':
      y = z.copy()
    elif w == 'xz':
      z = x.copy()
    else:
      y = x.copy()
      z = x.copy()
  elif cls == 'collinear':
    y = x / 2 + z / 2
  elif cls == 'huge':
    r = float(np.abs(Xtrain).max()) * 1e6
    x, y, z = x * r, np.array(t['y']) * r, z * r
  elif cls == 'tiny':
    r = float(np.abs(Xtrain).max()) * 1e-12
    x, y, z = x * r, np.array(t['y']) * r, z * r
  elif cls == 'ulp':
    y = x.copy()
    i = t['coord']
    y[i] = np.nextafter(y[i], np.inf if t['up'] else -np.inf)
  elif cls == 'nullspace':
    k = np.linalg.matrix_rank(L)
    if k < d:
      _, _, Vt = np.linalg.svd(L)
      v = Vt[-1]
      y = x + t['t'] * v
    else:
      y = x + t['t'] * np.ones(d) / math.sqrt(d)
      cls = 'nullspace-fullrank'
  return cls, x, y, z


def check_c01(case, stats):
  m = case['model']
  name = m['est']
  if m.get('f32param') and any(isinstance(v, str) and v in ('array', 'diag-array') for v in m['opts'].values()):
    # "an array is used as given": the same SPD / transformation matrix stored as float32
    data_ = gen.Data(m['desc'])
    params_ = E.materialize(name, m['opts'], data_, m['aseed'])
    for key in ('prior', 'init', 'basis'):
      if isinstance(params_.get(key), np.ndarray):
        a32 = params_[key].astype(np.float32)
        params_[key] = ((a32 + a32.T) / 2).astype(np.float32) if a32.shape[0] == a32.shape[1] and key != 'basis' and name not in ('LMNN', 'NCA', 'MLKR') else a32
    est = E.build(name, params_)
    r_ = E.fit_call('C01/fit', name, est, E.fit_args(name, data_), m['desc'], params_, expect=(RuntimeError,) if 'SDML' in name else ())
    est, data, params = (r_ if isinstance(r_, Exception) else est), data_, params_
    stats.classes['float32-array-option'] += 1
  else:
    est, data, params = E.fit_model(m, sig='C01/fit', expect=(RuntimeError,) if 'SDML' in name else ())
  if isinstance(est, Exception):
    raise Discard('SDML RuntimeError (specified outcome)')
  L = np.asarray(est.components_)
  if not (np.isrealobj(L) and np.isfinite(L).all()):
    raise Discard('components_ not real/finite (C03 territory)')
  d = L.shape[1]
  smax = sigma_max(L)
  metric = call('C01/get_metric', est.get_metric)
  for t in case['triples']:
    cls, x, y, z = realise(t, L, data.X)
    mx = max(np.abs(x).max(), np.abs(y).max(), np.abs(z).max())
    if smax * mx * math.sqrt(d) >= 1e150 or mx >= 1e150:
      stats.discards['overflow-precondition'] += 1
      continue
    pairs = np.array([[x, y], [y, z], [x, z], [y, x], [z, y], [z, x], [x, x], [y, y], [z, z]])
    pd = np.asarray(call('C01/pair_distance/' + name, est.pair_distance, pairs))
    ps = np.asarray(call('C01/pair_score/' + name, est.pair_score, pairs))
    gm = np.array([call('C01/get_metric()/' + name, metric, a, b) for a, b in pairs], dtype=float)
    tag = '%s/%s' % (name, cls)
    for nm, dist in (('pair_distance', pd), ('get_metric', gm)):
      if dist.shape != (9,):
        raise Violation('C01/shape/' + nm, '%s' % (dist.shape,))
      if not np.isfinite(dist).all():
        raise Violation('C01/finite/%s/%s' % (nm, tag), 'distances %s' % dist)
      if (dist < 0).any():
        raise Violation('C01/nonnegative/%s/%s' % (nm, tag), 'distances %s' % dist)
      if (dist[6:] != 0).any():
        raise Violation('C01/identity/%s/%s' % (nm, tag), 'd(p,p) = %s' % dist[6:])
      if (dist[:3] != dist[3:6]).any():
        raise Violation('C01/symmetry/%s/%s' % (nm, tag), 'd(a,b)=%s d(b,a)=%s' % (dist[:3], dist[3:6]))
      nxy, nyz, nxz = np.linalg.norm(x - y), np.linalg.norm(y - z), np.linalg.norm(x - z)
      slack = 64 * EPS * smax * math.sqrt(d) * (nxy + nyz + nxz) + 1e-150
      dxy, dyz, dxz = dist[0], dist[1], dist[2]
      for lhs, r1, r2, lab in ((dxz, dxy, dyz, 'xz<=xy+yz'), (dxy, dxz, dyz, 'xy<=xz+zy'), (dyz, dxy, dxz, 'yz<=yx+xz')):
        if lhs > r1 + r2 + slack:
          raise Violation('C01/triangle/%s/%s' % (nm, tag), '%s: %r > %r + %r (+slack %g)' % (lab, lhs, r1, r2, slack))
    if not np.array_equal(ps, -pd):
      raise Violation('C01/pair_score-negation/' + tag, 'pair_score %s vs -pair_distance %s' % (ps, -pd))
    distinct = not (np.array_equal(x, y) and np.array_equal(y, z))
    stats.case(dict(model=m, triple=t), distinct and bool((pd[:3] > 0).any()), [cls, name])


CHECKS = {'check_c01': check_c01}
_B = {'quick': (40, 20), 'thorough': (300, 75)}


def shards(tier):
  return [dict(name=n, est=n) for n in E.ALL]


def run_shard(shard, tier, seed, stats, known_sigs):
  n_models, n_triples = _B[tier]
  return drive(check_c01, case_strategy(shard['est'], n_triples), n_models, seed, stats, known_sigs,
               name='check_c01')
