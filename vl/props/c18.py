"""C18 - constructor parameters round-trip: get_params, set_params, clone, pickle."""
import inspect
import pickle

import numpy as np
from hypothesis import strategies as st

from ..common import Violation, Discard, call, ml, bits_equal, recorded_warnings
from ..hyp import drive, run_explicit
from .. import estimators as E, gen

RULE = ('EXHAUSTIVE: every (estimator, non-deprecated constructor parameter) x value kind {unique sentinel object, '
        'ndarray (float64, int, bool, float32), list, tuple, callable, int, float, bool, str, None} (only documented values where the constructor validates eagerly) - '
        'construction, set_params, clone; every deprecated alias; every method of every unfitted estimator; pickle '
        'round trip of every fitted estimator with no / array / callable preprocessor. GENERATED: Hypothesis sequences '
        'of set_params (numeric values; array-valued init / prior / basis as plain, Fortran, float32, integer, '
        'read-only and ndarray-subclass arrays, whose bytes must never change) / clone / pickle / fit on top, with a dict model of the parameters, and for numeric hyper-'
        'parameters the differential Est(p=v).fit == Est().set_params(p=v).fit == clone.fit. Each (estimator, '
        'parameter, value kind) cell and each sequence is a distinct non-trivial case.')
ASSUMPTIONS = ['clone is sklearn.base.clone; equality after clone/pickle is ==, array_equal for arrays, identity for functions',
               'LFDA outputs compared up to the sign of each component (ARPACK start vector is random)']
EXHAUSTIVE = True
DESC0 = dict(d=3, sizes=[6, 6], seed=5, logscale=0, cond=1, sep=1.0, labels='range', grid=False)
DEPRECATED = {'num_constraints': 'n_constraints', 'num_chunks': 'n_chunks', 'convergence_threshold': 'tol', 'k': 'n_neighbors'}
EAGER = {('LFDA', 'embedding_type'): ['weighted', 'orthonormalized', 'plain']}
KINDS = ['sentinel', 'ndarray', 'intarray', 'boolarray', 'f32array', 'list', 'tuple', 'callable', 'int', 'float', 'bool', 'str', 'none']


def some_function(x):
  return x


def prep_function(idx):
  return _PREP_POOL[idx]


_PREP_POOL = np.random.RandomState(3).randn(20, 3)


def ctor_params(name):
  cls = getattr(ml(), name)
  sig = inspect.signature(cls.__init__)
  out = []
  for p in list(sig.parameters.values())[1:]:
    dep = isinstance(p.default, str) and p.default == 'deprecated'
    out.append((p.name, p.default, dep))
  return out


def is_deprecated_alias(name, pname):
  return pname in DEPRECATED and not (name == 'LFDA' and pname == 'k')


def value_of(kind, salt=0):
  if kind == 'sentinel':
    return object()
  if kind == 'ndarray':
    return np.arange(6.0).reshape(2, 3) + salt
  if kind == 'intarray':
    return np.arange(6).reshape(2, 3) + salt
  if kind == 'boolarray':
    return np.eye(3, dtype=bool)
  if kind == 'f32array':
    return (np.arange(9.0).reshape(3, 3) + salt).astype(np.float32)
  if kind == 'list':
    return [1, 2.5, 'x', salt]
  if kind == 'tuple':
    return (1, 2, salt)
  if kind == 'bool':
    return True
  if kind == 'none':
    return None
  if kind == 'callable':
    return some_function
  if kind == 'int':
    return 12345 + salt
  if kind == 'float':
    return 0.123456789 + salt
  return 'some-string-%d' % salt


def same_value(a, b):
  if isinstance(a, np.ndarray) or isinstance(b, np.ndarray):
    return isinstance(a, np.ndarray) and isinstance(b, np.ndarray) and bits_equal(a, b)
  if callable(a) or callable(b):
    return a is b
  if type(a) is object and type(b) is object:
    return True
  return type(a) is type(b) and a == b


def cells():
  out = []
  for name in E.ALL:
    for pname, default, dep in ctor_params(name):
      if dep and is_deprecated_alias(name, pname):
        out.append(dict(kind='deprecated', est=name, param=pname))
        continue
      for vk in KINDS:
        out.append(dict(kind='param', est=name, param=pname, vkind=vk))
    out.append(dict(kind='unfitted', est=name))
    for prep in ('none', 'array', 'callable'):
      out.append(dict(kind='pickle', est=name, prep=prep))
  return out


def check_cell(case, stats):
  from sklearn.base import clone
  name = case['est']
  cls = getattr(ml(), name)
  k = case['kind']
  if k == 'param':
    pname = case['param']
    defaults = {p: dflt for p, dflt, dep in ctor_params(name)}
    if (name, pname) in EAGER:
      vals = EAGER[(name, pname)]
      v = vals[KINDS.index(case['vkind']) % len(vals)]
    else:
      v = value_of(case['vkind'])
    est = call('C18/construct/%s/%s' % (name, pname), cls, **{pname: v})
    gp = call('C18/get_params/' + name, est.get_params)
    if pname not in gp or gp[pname] is not v:
      raise Violation('C18/ctor-identity/%s/%s' % (name, pname), 'constructed with %r, get_params gives %r' % (v, gp.get(pname)))
    for other, dflt in defaults.items():
      if other != pname and not (gp.get(other) is dflt or same_value(gp.get(other), dflt)):
        raise Violation('C18/ctor-other-default/%s/%s' % (name, other), 'setting %s changed %s to %r' % (pname, other, gp.get(other)))
    est2 = cls()
    r = call('C18/set_params/%s/%s' % (name, pname), est2.set_params, **{pname: v})
    if r is not est2 or est2.get_params()[pname] is not v:
      raise Violation('C18/set_params-identity/%s/%s' % (name, pname), 'set %r, get_params gives %r' % (v, est2.get_params()[pname]))
    if getattr(est2, pname, None) is not v:
      raise Violation('C18/attribute/%s/%s' % (name, pname), 'attribute %s is %r' % (pname, getattr(est2, pname, None)))
    c = call('C18/clone/%s/%s' % (name, pname), clone, est)
    cp = c.get_params()
    if type(c) is not type(est) or set(cp) != set(gp):
      raise Violation('C18/clone-params/%s' % name, 'clone has parameters %s' % sorted(cp))
    for other in gp:
      if not same_value(cp[other], gp[other]):
        raise Violation('C18/clone-value/%s/%s' % (name, other), 'clone has %r, original %r' % (cp[other], gp[other]))
    if hasattr(c, 'components_'):
      raise Violation('C18/clone-fitted/' + name, 'clone carries fitted state')
    stats.case(case, True, [name, 'param:' + case['vkind']])
  elif k == 'deprecated':
    pname, repl = case['param'], DEPRECATED[case['param']]
    v = 17
    with recorded_warnings() as w:
      est = call('C18/construct-deprecated/%s/%s' % (name, pname), cls, **{pname: v})
    if not any(issubclass(x.category, FutureWarning) for x in w):
      raise Violation('C18/deprecated-no-warning/%s/%s' % (name, pname), 'no FutureWarning')
    gp = est.get_params()
    if gp.get(repl) != v:
      raise Violation('C18/deprecated-mapping/%s/%s' % (name, pname), '%s=%r gives %s=%r' % (pname, v, repl, gp.get(repl)))
    with recorded_warnings() as w:
      cls()
    if any(issubclass(x.category, FutureWarning) and 'deprecated' in str(x.message) for x in w):
      raise Violation('C18/deprecated-spurious-warning/' + name, 'default construction warns')
    stats.case(case, True, [name, 'deprecated'])
  elif k == 'unfitted':
    from sklearn.exceptions import NotFittedError
    est = cls()
    X = np.zeros((2, 3))
    P = np.zeros((2, 2, 3))
    meths = [('transform', (X,)), ('pair_distance', (P,)), ('pair_score', (P,)), ('score_pairs', (P,)),
             ('get_metric', ()), ('get_mahalanobis_matrix', ())]
    if name in E.TUPLE_LEARNERS:
      ts = E.TUPLE_SIZE[E.KIND[name]]
      T = np.zeros((2, ts, 3))
      meths += [('predict', (T,)), ('decision_function', (T,))]
      meths += [('score', (T, [1, -1]) if ts == 2 else (T,))]
    if name in E.PAIRS:
      meths += [('set_threshold', (0.5,)), ('calibrate_threshold', (P, [1, -1]))]
    for meth, args in meths:
      r = call('C18/unfitted/%s/%s' % (meth, name), getattr(est, meth), *args, expect=(NotFittedError,))
      if not isinstance(r, NotFittedError):
        raise Violation('C18/unfitted-no-error/%s/%s' % (meth, name), 'returned %r' % (r,))
    stats.case(case, True, [name, 'unfitted'])
  else:
    data = gen.Data(DESC0)
    extra = {'none': {}, 'array': {'preprocessor': _PREP_POOL}, 'callable': {'preprocessor': prep_function}}[case['prep']]
    params = E.materialize(name, {}, data, 0, extra)
    est = E.build(name, params)
    r = call('C18/fit/' + name, est.fit, *E.fit_args(name, data), expect=(RuntimeError,) if 'SDML' in name else ())
    if isinstance(r, Exception):
      raise Discard('SDML RuntimeError')
    blob = call('C18/pickle.dumps/' + name, pickle.dumps, est)
    est2 = call('C18/pickle.loads/' + name, pickle.loads, blob)
    rs = np.random.RandomState(9)
    Xq = rs.randn(5, 3)
    Pq = rs.randn(4, 2, 3)
    outs = [('transform', (Xq,)), ('pair_distance', (Pq,)), ('pair_score', (Pq,)), ('get_mahalanobis_matrix', ())]
    if case['prep'] != 'none':
      outs += [('transform', (np.array([3, 1, 1, 19]),)), ('pair_distance', (np.array([[0, 5], [7, 7], [19, 2]]),))]
    if name in E.TUPLE_LEARNERS:
      ts = E.TUPLE_SIZE[E.KIND[name]]
      Tq = rs.randn(4, ts, 3)
      outs += [('predict', (Tq,)), ('decision_function', (Tq,))]
      outs += [('score', (Tq, [1, -1, 1, -1]) if ts == 2 else (Tq,))]
    for meth, args in outs:
      a = np.asarray(getattr(est, meth)(*args))
      b = np.asarray(call('C18/unpickled-%s/%s' % (meth, name), getattr(est2, meth), *args))
      if not bits_equal(a, b):
        raise Violation('C18/pickle-output/%s/%s' % (meth, name), '%r vs %r' % (a, b))
    m1, m2 = est.get_metric(), est2.get_metric()
    if m1(Xq[0], Xq[1]) != m2(Xq[0], Xq[1]):
      raise Violation('C18/pickle-output/get_metric/' + name, '')
    for attr in ('threshold_', 'n_features_in_', 'n_iter_'):
      if hasattr(est, attr) and getattr(est, attr) != getattr(est2, attr, None):
        raise Violation('C18/pickle-attr/%s/%s' % (attr, name), '')
    g1, g2 = est.get_params(), est2.get_params()
    for p in g1:
      if not (same_value(g1[p], g2[p]) or (callable(g1[p]) and g1[p].__name__ == g2[p].__name__)):
        raise Violation('C18/pickle-params/%s/%s' % (name, p), '%r vs %r' % (g1[p], g2[p]))
    stats.case(case, True, [name, 'pickle:' + case['prep']])


# numeric hyper-parameters with a valid non-default value (behaviour-relevant ones)
ALT = {
    'LMNN': dict(n_neighbors=1, regularization=0.3, learn_rate=1e-5, max_iter=6, min_iter=3, convergence_tol=0.1),
    'NCA': dict(max_iter=3, tol=1e-2), 'MLKR': dict(max_iter=3, tol=1e-2),
    'LFDA': dict(k=2, n_components=2), 'RCA': dict(n_components=2),
    'RCA_Supervised': dict(n_components=2, n_chunks=4, chunk_size=3, random_state=3),
    'ITML': dict(gamma=3.0, max_iter=4, tol=1e-1, random_state=3),
    'ITML_Supervised': dict(gamma=3.0, max_iter=4, tol=1e-1, n_constraints=11, random_state=3),
    'MMC': dict(max_iter=3, max_proj=50, tol=1e-1, diagonal_c=2.0, diagonal=True),
    'MMC_Supervised': dict(max_iter=3, max_proj=50, tol=1e-1, diagonal_c=2.0, n_constraints=11, random_state=3, diagonal=True),
    'SDML': dict(balance_param=0.05, sparsity_param=0.1), 'SDML_Supervised': dict(balance_param=0.05, sparsity_param=0.1, n_constraints=11, random_state=3),
    'LSML': dict(tol=1e-1, max_iter=3), 'LSML_Supervised': dict(tol=1e-1, max_iter=3, n_constraints=11, random_state=3),
    'SCML': dict(beta=1e-2, gamma=0.1, max_iter=40, output_iter=10, batch_size=3, n_basis=9, random_state=3),
    'SCML_Supervised': dict(beta=1e-2, gamma=0.1, max_iter=40, output_iter=10, batch_size=3, n_basis=5, k_genuine=1,
                            k_impostor=2, random_state=3),
    'Covariance': {},
}


ARRAY_PARAM = {'LMNN': 'init', 'NCA': 'init', 'MLKR': 'init', 'ITML': 'prior', 'ITML_Supervised': 'prior',
               'LSML': 'prior', 'LSML_Supervised': 'prior', 'SDML': 'prior', 'SDML_Supervised': 'prior',
               'MMC': 'init', 'MMC_Supervised': 'init', 'SCML': 'basis', 'SCML_Supervised': 'basis'}
ARRAY_KINDS = ['plain', 'fortran', 'f32', 'subclass', 'readonly', 'int']


class TaggedArray(np.ndarray):
  """a plain user subclass of ndarray (an array carrying metadata; np.memmap is another one)"""


def array_value(name, d, aseed, kind):
  """a valid array value of the estimator's array-valued option, in one of several array flavours"""
  p = ARRAY_PARAM[name]
  spd = p == 'prior' or name.startswith('MMC')
  if p == 'basis':
    a = gen.basis_from_seed(d + 3, d, aseed)
  elif spd:
    a = gen.spd_from_seed(d, aseed)
  else:
    a = gen.transform_from_seed(d, d, aseed)
  if kind == 'fortran':
    a = np.asfortranarray(a)
  elif kind == 'f32':
    a = a.astype(np.float32)
  elif kind == 'subclass':
    a = a.view(TaggedArray)
  elif kind == 'readonly':
    a.setflags(write=False)
  elif kind == 'int' and spd:
    a = np.eye(d, dtype=int) * (d + 1 + aseed % 3) + 1
  return a


@st.composite
def seq_case(draw, name):
  alts = sorted(ALT[name])
  ops = []
  for _ in range(draw(st.integers(1, 6))):
    op = draw(st.sampled_from(['set', 'set', 'clone', 'pickle', 'pickle', 'fit', 'prep'] + (['arr', 'arr'] if name in ARRAY_PARAM else [])))
    if op == 'set' and alts:
      ops.append(['set', draw(st.sampled_from(alts))])
    elif op == 'prep':
      ops.append(['prep', draw(st.integers(0, 2))])
    elif op == 'arr':
      ops.append(['arr', draw(st.integers(0, 99)), draw(st.sampled_from(ARRAY_KINDS))])
    elif op != 'set':
      ops.append([op])
  first = draw(st.sampled_from(alts)) if alts else None
  return dict(est=name, first=first, ops=ops, dseed=draw(st.integers(0, 50)))


def comparable(name, est):
  M = est.get_mahalanobis_matrix()
  return M


def check_seq(case, stats):
  from sklearn.base import clone
  name = case['est']
  desc = dict(DESC0, seed=case['dseed'])
  data = gen.Data(desc)
  pools = [np.random.RandomState(100 + j).randn(20, data.d) * (j + 1) for j in range(3)]
  base = E.materialize(name, {}, data, 0, {'preprocessor': pools[0]})
  model = dict(base)
  qidx = np.array([3, 1, 1, 19, 0])
  qpairs = np.array([[0, 5], [7, 7], [19, 2]])
  if case['first']:
    model[case['first']] = ALT[name][case['first']]
  est = E.build(name, dict(model))
  exp = (RuntimeError,) if 'SDML' in name else (ValueError,) if ('MMC' in name or name == 'RCA_Supervised') else ()
  fitted = False
  handed = []          # (array handed to the estimator, private snapshot)
  arr_spec = None
  for op in case['ops']:
    if op[0] == 'arr':
      pa = ARRAY_PARAM[name]
      arr = array_value(name, data.d, op[1], op[2])
      handed.append((arr, np.array(arr, copy=True, subok=False)))
      arr_spec = (op[1], op[2])
      model[pa] = arr
      if pa == 'basis':
        model['n_basis'] = None
        call('C18/seq-set_params/' + name, est.set_params, n_basis=None)
      call('C18/seq-set_params/' + name, est.set_params, **{pa: arr})
      stats.classes['array-option:' + op[2]] += 1
    elif op[0] == 'set':
      model[op[1]] = ALT[name][op[1]]
      call('C18/seq-set_params/' + name, est.set_params, **{op[1]: model[op[1]]})
    elif op[0] == 'clone':
      est = call('C18/seq-clone/' + name, clone, est)
      fitted = False
    elif op[0] == 'prep':
      model['preprocessor'] = pools[op[1]]
      call('C18/seq-set_params/' + name, est.set_params, preprocessor=pools[op[1]])
    elif op[0] == 'pickle':
      before = None
      if fitted:
        before = [np.asarray(est.transform(qidx)), np.asarray(est.pair_distance(qpairs))]
      est = call('C18/seq-pickle/' + name, pickle.loads, pickle.dumps(est))
      if before is not None:
        after = [np.asarray(call('C18/seq-unpickled-transform/' + name, est.transform, qidx)),
                 np.asarray(call('C18/seq-unpickled-pair_distance/' + name, est.pair_distance, qpairs))]
        for x, z, what in zip(before, after, ('transform(indices)', 'pair_distance(indices)')):
          if not bits_equal(x, z):
            raise Violation('C18/seq-pickle-changes-index-outputs/' + name,
                            'history %s: %s differs after the pickle round trip by %g' % (case['ops'], what, np.abs(x - z).max()))
    else:
      r = E.fit_call('C18/seq-fit', name, est, E.fit_args(name, data), desc, model, expect=exp)
      if isinstance(r, Exception):
        raise Discard('specified fit failure (%s)' % type(r).__name__)
      fitted = True
    gp = est.get_params()
    for arr, snapv in handed:
      if not bits_equal(np.asarray(arr), snapv):
        raise Violation('C18/seq-array-param-modified/' + name, 'after %s: the array handed to the estimator changed by %g'
                        % (op, np.abs(np.asarray(arr, dtype=float) - snapv).max()))
    for p, v in model.items():
      if not same_value(gp[p], v):
        raise Violation('C18/seq-params/%s/%s' % (name, p), 'after %s: %r, expected %r' % (op, gp[p], v))
      if isinstance(v, np.ndarray) and type(gp[p]) is not type(v):
        raise Violation('C18/seq-params-type/%s/%s' % (name, p), 'after %s: %s, expected %s' % (op, type(gp[p]), type(v)))
  # differential: constructing with the final parameters == the history
  final = dict(model)
  if arr_spec is not None:
    final[ARRAY_PARAM[name]] = array_value(name, data.d, *arr_spec)      # a pristine array of the same values
  ref = E.build(name, final)
  r1 = E.fit_call('C18/seq-final-fit', name, est, E.fit_args(name, data), desc, model, expect=exp)
  r2 = E.fit_call('C18/seq-ref-fit', name, ref, E.fit_args(name, data), desc, final, expect=exp)
  if isinstance(r1, Exception) or isinstance(r2, Exception):
    if type(r1) is not type(r2):
      raise Violation('C18/seq-fit-outcome/' + name, '%r vs %r' % (r1, r2))
    raise Discard('specified fit failure (%s)' % type(r1).__name__)
  M1, M2 = est.get_mahalanobis_matrix(), ref.get_mahalanobis_matrix()
  ok = np.allclose(M1, M2, rtol=1e-7, atol=1e-9 * np.abs(M2).max(initial=0)) if name == 'LFDA' else bits_equal(M1, M2)
  if not ok:
    raise Violation('C18/seq-behaviour/' + name, 'history %s: fitted model differs from Est(**final_params).fit: %r vs %r'
                    % (case['ops'], M1, M2))
  for arr, snapv in handed:
    if not bits_equal(np.asarray(arr), snapv):
      raise Violation('C18/seq-array-param-modified/' + name, 'after the final fit: the array handed to the estimator changed by %g'
                      % np.abs(np.asarray(arr, dtype=float) - snapv).max())
  stats.case(case, len(case['ops']) >= 2, [name, 'seq'])


CHECKS = {'check_cell': check_cell, 'check_seq': check_seq}
_B = {'quick': 80, 'thorough': 2000}


def shards(tier):
  out = [dict(name='cells-%02d' % i, part='cells', i=i) for i in range(8)]
  out += [dict(name='seq-' + n, part='seq', est=n) for n in E.ALL]
  return out


def run_shard(shard, tier, seed, stats, known_sigs):
  if shard['part'] == 'cells':
    cs = cells()
    return run_explicit(check_cell, cs[shard['i']::8], stats, known_sigs, name='check_cell')
  return drive(check_seq, seq_case(shard['est']), _B[tier], seed, stats, known_sigs, name='check_seq')
