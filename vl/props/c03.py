"""C03 - fit on well-formed input yields a valid Mahalanobis model of the right shape."""
import numpy as np
from hypothesis import strategies as st

from ..common import Violation, Discard, call, EPS, sigma_max, recorded_warnings
from ..hyp import drive
from .. import estimators as E, gen

RULE = ('per estimator: Hypothesis training descriptors (d in 2..8, 2-4 classes >= 4 members, n >= 4d, scale '
        '1e-2..1e2, anisotropy <= 100, arbitrary label codes) x the FULL Cartesian product of documented '
        'option values for that (d, n_classes) (init/prior/basis/embedding_type/k/n_components, enumerated '
        'exhaustively per descriptor); for LMNN/NCA/MLKR/LFDA additional "wide" shards draw many descriptors (class '
        'separation up to 4 sigma) with one option tuple each and drawn n_neighbors / learn_rate / regularization / '
        'max_iter. One evaluation = one (descriptor, option tuple) fit. Non-trivial = '
        'some option differs from the default, or the dataset is unbalanced / non-unit scale; distinct by '
        '(estimator, options, descriptor).')
ASSUMPTIONS = ['SDML: balance_param drawn as half the largest value keeping the graphical-lasso input positive '
               'definite; RuntimeError is a specified outcome and is counted, not failed',
               'PSD up to lambda_min >= -8 d eps ||M||']
EXHAUSTIVE = True   # over the option product of each drawn descriptor


def check_one(name, opts, desc, aseed, stats, extra=None):
  data = gen.Data(desc)
  d = data.d
  params = E.materialize(name, opts, data, aseed, extra)
  est = E.build(name, params)
  with recorded_warnings() as w:
    r = E.fit_call('C03/fit', name, est, E.fit_args(name, data), desc, params,
                   expect=(RuntimeError,) if 'SDML' in name else (), report_kf=True)
  if isinstance(r, Exception):
    stats.inconclusive['SDML RuntimeError (specified)'] += 1
    return
  tag = '%s %s' % (name, {k: (v if not isinstance(v, np.ndarray) else 'array') for k, v in sorted(opts.items())})
  if r is not est:
    raise Violation('C03/returns-self/' + name, tag)
  L = getattr(est, 'components_', None)
  if not isinstance(L, np.ndarray) or L.ndim != 2:
    raise Violation('C03/components-type/' + name, '%s: %r' % (tag, type(L)))
  if not np.issubdtype(L.dtype, np.floating):
    raise Violation('C03/components-dtype/' + name, '%s: dtype %s' % (tag, L.dtype))
  if not np.isfinite(L).all():
    raise Violation('C03/components-finite/' + name, tag)
  nc = opts.get('n_components')
  k = L.shape[0]
  low_rank_warned = any('reduces the dimension' in str(x.message) for x in w)
  if L.shape[1] != d:
    raise Violation('C03/components-shape/' + name, '%s: shape %s, d=%d' % (tag, L.shape, d))
  if nc is not None:
    if k != nc:
      if name in ('LMNN', 'NCA') and opts.get('init', 'auto') in ('auto', 'lda') and k < nc and E.lda_rank_short(data.X, data.y, nc):
        raise Violation('C03/components-shape/%s/lda-rank-short' % name, '%s: %d rows, n_components=%d (scikit-learn LDA returns fewer directions)' % (tag, k, nc))
      raise Violation('C03/components-shape/' + name, '%s: %d rows, n_components=%d' % (tag, k, nc))
  elif name in ('SCML', 'SCML_Supervised'):
    if not 0 <= k <= d:
      raise Violation('C03/components-shape/' + name, '%s: %d rows for d=%d' % (tag, k, d))
    if (k < d) != low_rank_warned:
      raise Violation('C03/scml-lowrank-warning/' + name, '%s: rows=%d d=%d warned=%s' % (tag, k, d, low_rank_warned))
  elif k != d:
    if name in ('LMNN', 'NCA') and opts.get('init', 'auto') in ('auto', 'lda') and k < d and E.lda_rank_short(data.X, data.y, d):
      raise Violation('C03/components-shape/%s/lda-rank-short' % name, '%s: %d rows, d=%d (scikit-learn LDA returns fewer directions)' % (tag, k, d))
    raise Violation('C03/components-shape/' + name, '%s: %d rows without n_components, d=%d' % (tag, k, d))
  M = np.asarray(call('C03/get_mahalanobis_matrix/' + name, est.get_mahalanobis_matrix))
  smax2 = max(sigma_max(L) ** 2, 1e-300)
  if M.shape != (d, d) or np.abs(M - M.T).max() > 4 * EPS * smax2:
    raise Violation('C03/M-symmetric/' + name, tag)
  if np.linalg.eigvalsh((M + M.T) / 2).min() < -8 * d * EPS * smax2:
    raise Violation('C03/M-psd/' + name, tag)
  nfi = getattr(est, 'n_features_in_', None)
  if nfi != d:
    raise Violation('C03/n_features_in_/' + name, '%s: n_features_in_=%r, points have %d features' % (tag, nfi, d))
  m = min(5, data.n)
  T = np.asarray(call('C03/transform/' + name, est.transform, data.X[:m]))
  if T.shape != (m, k) or not np.isfinite(T).all():
    raise Violation('C03/transform-shape/' + name, '%s: %s, expected %s' % (tag, T.shape, (m, k)))
  default = all(v in (None,) or v == dflt for v, dflt in
                [(opts.get(o), DEFAULTS.get(name, {}).get(o)) for o in opts])
  unbalanced = len(set(desc['sizes'])) > 1 or desc['logscale'] != 0
  stats.case(dict(est=name, opts=opts, desc=desc), (not default) or unbalanced,
             [name] + ['%s=%s' % (o, v) for o, v in sorted(opts.items()) if o != 'n_components' and o != 'k'])


DEFAULTS = {'LMNN': dict(init='auto'), 'NCA': dict(init='auto'), 'MLKR': dict(init='auto'),
            'LFDA': dict(embedding_type='weighted'), 'SCML': dict(basis='triplet_diffs'),
            'SCML_Supervised': dict(basis='lda'), 'MMC': dict(init='identity'), 'MMC_Supervised': dict(init='identity')}
for _n in ('ITML', 'ITML_Supervised', 'LSML', 'LSML_Supervised', 'SDML', 'SDML_Supervised'):
  DEFAULTS[_n] = dict(prior='identity')


def check_c03(case, stats):
  name, desc = case['est'], case['desc']
  nc = len(desc['sizes'])
  if case.get('opts') is not None:
    extra = case.get('extra')
    if name == 'LMNN' and extra and min(desc['sizes']) <= extra.get('n_neighbors', 0):
      raise Discard('class smaller than n_neighbors + 1')
    check_one(name, case['opts'], desc, case.get('aseed', 0), stats, extra)
    return
  for opts in E.enumerate_options(name, desc['d'], nc):
    check_one(name, opts, desc, case.get('aseed', 0), stats)


@st.composite
def case_strategy(draw, name, dmax):
  return dict(est=name, desc=draw(gen.dataset_desc(dmax=dmax)), aseed=draw(st.integers(0, 99)), opts=None)


WIDE = ('LMNN', 'NCA', 'MLKR', 'LFDA')      # large option products: few descriptors in the exhaustive shard


@st.composite
def wide_strategy(draw, name, dmax):
  """many descriptors, ONE drawn option tuple each, numeric hyper-parameters drawn as well"""
  desc = draw(gen.dataset_desc(dmax=dmax, max_sep=draw(st.sampled_from([1.5, 3.0, 4.0]))))
  allopts = E.enumerate_options(name, desc['d'], len(desc['sizes']))
  opts = allopts[draw(st.integers(0, len(allopts) - 1))]
  extra = {}
  if name == 'LMNN':
    extra = dict(n_neighbors=draw(st.integers(1, 3)), learn_rate=10.0 ** draw(st.integers(-7, -3)),
                 regularization=draw(st.sampled_from([0.1, 0.5, 0.9])), max_iter=draw(st.sampled_from([3, 12, 30])))
  elif name in ('NCA', 'MLKR'):
    extra = dict(max_iter=draw(st.sampled_from([1, 8, 30])))
  return dict(est=name, desc=desc, aseed=draw(st.integers(0, 99)), opts=opts, extra=extra)


CHECKS = {'check_c03': check_c03}
# (descriptors per estimator, dmax)
_B = {'quick': (3, 5), 'thorough': (40, 8)}
_FEW = ('Covariance', 'RCA', 'RCA_Supervised', 'ITML', 'ITML_Supervised', 'MMC', 'MMC_Supervised', 'SDML',
        'SDML_Supervised', 'LSML', 'LSML_Supervised', 'SCML', 'SCML_Supervised')


def shards(tier):
  return [dict(name=n, est=n) for n in E.ALL] + [dict(name='%s-wide-%d' % (n, i), est=n, wide=True) for n in WIDE for i in range(3 if n == 'LMNN' else 1)]


def run_shard(shard, tier, seed, stats, known_sigs):
  n, dmax = _B[tier]
  name = shard['est']
  if shard.get('wide'):
    return drive(check_c03, wide_strategy(name, dmax), {'quick': 60, 'thorough': 4000}[tier], seed, stats, known_sigs,
                 name='check_c03')
  if name in _FEW:      # small option products: more descriptors
    n *= 4
  return drive(check_c03, case_strategy(name, dmax), n, seed, stats, known_sigs, name='check_c03')
