"""C15 - SCML learns a non-negative combination of its basis by the documented scheme."""
import numpy as np
from hypothesis import strategies as st

from ..common import Violation, Discard, call, mlsub, recorded_warnings, bits_equal
from ..hyp import drive
from .. import estimators as E, gen, oracles as O, observe

RULE = ('SCML and SCML_Supervised on generated triplet sets (n_triplets >= d) x basis in {triplet_diffs, ndarray (K in d..12), '
        'lda (supervised)} x n_basis x beta = 10^[-6,-1] x gamma = 10^[-3,0] x batch_size 1..6 x max_iter 1..80 x output_iter '
        '1..max_iter x integer seeds.  The (basis, weights) pair handed to the final conversion is captured by wrapping '
        '_components_from_basis_weights; the harness recomputes the per-triplet basis-space distance differences from the raw '
        'triplets, draws the same batches and runs its own dual-averaging reference, and compares the weights with the '
        'reference at the checkpoint of lowest objective.  Non-trivial = >= 2 checkpoints with different objectives and a '
        'non-zero weight vector; distinct by canonical case.')
ASSUMPTIONS = ['weights compared at 1e-8 * (1 + offset/1e3) relative, offset = distance of the point cloud from the origin in units of its spread (0, 1e3, 1e4, 1e5); if two checkpoints tie within 1e-12 either is accepted',
               'for SCML_Supervised the triplets are those of the public Constraints.generate_knntriplets helper (C07/C08 decide their soundness)']
NAMES = ['SCML', 'SCML_Supervised']


@st.composite
def case_strategy(draw, name):
  desc = draw(gen.dataset_desc(dmax=5, scales=False))
  d = desc['d']
  max_iter = draw(st.integers(1, 80))
  basis = draw(st.sampled_from(['triplet_diffs', 'array'] + (['lda', 'lda'] if name == 'SCML_Supervised' else [])))
  return dict(est=name, desc=desc, basis=basis, K=draw(st.integers(d, 12)), n_basis=draw(st.integers(d, 14)),
              logbeta=draw(st.floats(-6, -1, allow_nan=False)), loggamma=draw(st.floats(-3, 0, allow_nan=False)),
              batch_size=draw(st.integers(1, 6)), max_iter=max_iter, output_iter=draw(st.integers(1, max_iter)),
              seed=draw(st.integers(0, 10 ** 6)), aseed=draw(st.integers(0, 999)), n_trip=draw(st.integers(d, 30)),
              kg=draw(st.integers(1, 3)), ki=draw(st.integers(1, 4)),
              offset=draw(st.sampled_from([0.0, 0.0, 1e3, 1e4, 1e5])))


def check_c15(case, stats):
  name = case['est']
  data = gen.Data(case['desc'])
  d = data.d
  if case.get('offset'):
    # the same point cloud far from the origin (offset / spread up to 3e4): the scheme only uses differences
    data.X = data.X + case['offset'] * float(np.abs(data.X).max()) * np.linspace(1.0, 2.0, d)
    data._c = {}
  beta, gamma = 10.0 ** case['logbeta'], 10.0 ** case['loggamma']
  params = dict(beta=beta, gamma=gamma, batch_size=case['batch_size'], max_iter=case['max_iter'],
                output_iter=case['output_iter'], random_state=case['seed'])
  given = None
  if case['basis'] == 'array':
    given = gen.basis_from_seed(case['K'], d, case['aseed']) * (1.0 + (case['aseed'] % 3))   # not necessarily unit norm
    if case['aseed'] % 4 == 1 and len(given) >= 3:
      # a basis "used as given" may list a direction more than once (each copy gets its own weight)
      given[-1] = given[0]
      given[len(given) // 2] = given[1 % len(given)]
      stats.classes['array-basis-with-repeated-rows'] += 1
    params['basis'] = given.copy()
  else:
    params['basis'] = case['basis']
    params['n_basis'] = case['n_basis']
  if name == 'SCML':
    rs = np.random.RandomState(case['seed'] + 5)
    T = data.X[gen.make_triplets(data.X, data.y, case['n_trip'], rs)]
    fargs = (T,)
  else:
    params.update(k_genuine=case['kg'], k_impostor=case['ki'])
    C = mlsub('constraints')
    with recorded_warnings():
      tidx = C.Constraints(data.y).generate_knntriplets(data.X, case['kg'], case['ki'])
    T = data.X[tidx]
    fargs = (data.X, data.y)
    if len(T) < d:
      raise Discard('fewer triplets than features')
    if case['basis'] == 'lda':
      num_eig = min(data.n_classes - 1, d)
      if case['n_basis'] >= data.n * 2 * num_eig or case['n_basis'] > 2 * num_eig * data.n:
        raise Discard('n_basis too large for the lda basis')
  est = E.build(name, params)
  with observe.record_method('scml', '_BaseSCML', '_components_from_basis_weights') as calls, recorded_warnings() as wl:
    call('C15/fit/%s/%s' % (name, case['basis']), est.fit, *fargs)
  if len(calls) != 1:
    raise Violation('C15/no-final-conversion', '%d calls of the basis/weights conversion' % len(calls))
  (basis, w), _, Lret = calls[0]
  basis = np.asarray(basis, dtype=float)
  w = np.asarray(w, dtype=float).ravel()
  tag = '%s/%s' % (name, case['basis'])
  if basis.ndim != 2 or basis.shape[1] != d or w.shape != (basis.shape[0],):
    raise Violation('C15/shapes/' + tag, 'basis %s weights %s' % (basis.shape, w.shape))
  if given is not None:
    if not bits_equal(basis, given):
      raise Violation('C15/array-basis-not-used-as-given/' + tag, 'basis in use differs from the supplied array')
    if not bits_equal(params['basis'], given):
      raise Violation('C15/array-basis-modified/' + tag, 'supplied array was modified')
  else:
    if basis.shape[0] != case['n_basis']:
      raise Violation('C15/n_basis/' + tag, '%d rows, n_basis=%d' % (basis.shape[0], case['n_basis']))
    norms = np.linalg.norm(basis, axis=1)
    if np.abs(norms - 1).max() > 1e-12:
      raise Violation('C15/basis-not-unit-norm/' + tag, 'row norms %s' % norms)
  if (w < 0).any() or not np.isfinite(w).all():
    raise Violation('C15/negative-weight/' + tag, 'min weight %g' % w.min())
  L = np.asarray(est.components_)
  M = est.get_mahalanobis_matrix()
  Mref = (basis.T * w).dot(basis)
  if np.abs(M - Mref).max() > 1e-9 * max(np.abs(Mref).max(), 1e-300):
    raise Violation('C15/M-not-weighted-sum/' + tag, 'max|M - sum w_i b_i b_i^T| = %g' % np.abs(M - Mref).max())
  nact = int((w > 0).sum())
  warned = any('reduces the dimension' in str(x.message) for x in wl)
  if nact < d:
    if L.shape != (nact, d):
      raise Violation('C15/lowrank-rows/' + tag, '%d active bases, components_ shape %s' % (nact, L.shape))
    if not warned:
      raise Violation('C15/lowrank-no-warning/' + tag, '%d active bases < %d features without the warning' % (nact, d))
  else:
    if L.shape != (d, d):
      raise Violation('C15/fullrank-shape/' + tag, 'components_ shape %s' % (L.shape,))
    if warned:
      raise Violation('C15/spurious-lowrank-warning/' + tag, '%d active bases >= %d features' % (nact, d))
  # reference model of the documented scheme
  dd = O.scml_dist_diff(T, basis)
  cps = O.scml_reference(dd, beta, gamma, case['batch_size'], case['max_iter'], case['output_iter'], case['seed'])
  best = min(c[1] for c in cps)
  ok = False
  noise = 0.0
  if case.get('offset'):
    # noise-floor control for data far from the origin: the same documented quantity with the points projected
    # BEFORE the differences are taken (rounding eps * offset per projection instead of eps * spread); how far the
    # reference weights move under that rounding bounds what any double-precision implementation can reproduce
    # (cancellation inside d_b(a,b) - d_b(a,c) can amplify it well beyond eps * offset / spread)
    Pj = np.asarray(T, dtype=float).reshape(-1, d).dot(np.asarray(basis, dtype=float).T).reshape(len(T), 3, -1)
    dd2 = (Pj[:, 0] - Pj[:, 1]) ** 2 - (Pj[:, 0] - Pj[:, 2]) ** 2
    cps2 = O.scml_reference(dd2, beta, gamma, case['batch_size'], case['max_iter'], case['output_iter'], case['seed'])
    for (_, _, wa), (_, _, wb) in zip(cps, cps2):
      noise = max(noise, float(np.abs(wa - wb).max()) / max(float(np.abs(wa).max()), 1e-300))
  for it, obj, wr in cps:
    if obj <= best + 1e-12 * max(1.0, abs(best)):
      # far from the origin the library's projections (X B^T, then differences) carry eps * offset/spread of relative
      # error (measured worst case 3e-9 at 1e4, 2e-8 at 1e5 on the unchanged tree; an expanded-squares variant gives
      # 7e-6 and 3e-3): the tolerance grows linearly with that ratio
      # (the ratio that matters is offset / smallest spread: anisotropic data - desc cond - is that much thinner)
      wtol = 1e-8 * (1.0 + case.get('offset', 0.0) * case['desc'].get('cond', 1) / 1e3) + 10 * noise
      if np.abs(wr - w).max() <= wtol * max(np.abs(wr).max(), 1e-300) + 1e-300:
        ok = True
  if not ok:
    first_best = [c for c in cps if c[1] == best][0]
    raise Violation('C15/weights-differ-from-reference/' + tag,
                    'weights %s; reference at the best checkpoint (iter %d, obj %r): %s; checkpoints %s'
                    % (w[:6], first_best[0], best, first_best[2][:6], [(c[0], c[1]) for c in cps][:8]))
  distinct_objs = len(set(round(c[1], 12) for c in cps))
  stats.case(case, distinct_objs >= 2 and nact > 0, [name, 'basis:' + case['basis'], 'all-zero' if nact == 0 else
                                                     ('lowrank' if nact < d else 'fullrank'),
                                                     'checkpoints>=2' if len(cps) >= 2 else 'checkpoints=1', 'offset:%g' % case.get('offset', 0.0)])


CHECKS = {'check_c15': check_c15}
_B = {'quick': 120, 'thorough': 4000}


def shards(tier):
  return [dict(name='%s-%d' % (n, i), est=n) for n in NAMES for i in range(6)]


def run_shard(shard, tier, seed, stats, known_sigs):
  return drive(check_c15, case_strategy(shard['est']), _B[tier], seed, stats, known_sigs, name='check_c15')
