"""C04 - tuple classifiers decide exactly by comparing learned distances."""
import math

import numpy as np
from hypothesis import strategies as st

from ..common import Violation, Discard, call
from ..hyp import drive
from .. import estimators as E, gen

RULE = ('ITML/MMC/SDML (pairs), SCML (triplets), LSML (quadruplets), fitted on generated data, with tuples '
        'given formed or as indices through an array preprocessor; test tuples are index tuples into a pool of '
        '3-8 points (small-integer or float coordinates) with forced ties (repeated pairs, a==b, b==c, '
        '(c,d)==(a,b) or (b,a)), the pool stored as float64 or float32 and on the training scale, x1e20 or x1e-25; '
        'for pairs learners a drawn history of threshold operations {set_threshold(t) '
        'with t an exact test distance / its nextafter neighbours / 0 / negative / inf / arbitrary / int / '
        'numeric string, calibrate_threshold(strategy), refit with or without calibration_params}. '
        'Non-trivial = the batch contains a tie or a distance within 4 ulp of the threshold, or the history '
        'has >= 2 threshold operations; distinct by the canonical case.')
ASSUMPTIONS = ['distances used by the decision oracle come from the public pair_distance on a batch of the same length '
               '(so exact equality is meaningful); pair_distance itself is compared with the double-precision Mahalanobis '
               'distance under components_ on the same coordinate values, within 1e-9 relative + 8 eps(input dtype) sqrt(d) '
               'sigma_max(L) (|x|+|x\'|)', 'AUC compared with a brute-force Mann-Whitney count within 1e-12']

NAMES = ['ITML', 'MMC', 'SDML', 'SCML', 'LSML']
SIZE = {'ITML': 2, 'MMC': 2, 'SDML': 2, 'SCML': 3, 'LSML': 4}


@st.composite
def case_strategy(draw, name):
  m = draw(E.model_desc(name, dmax=4))
  d = m['desc']['d']
  npts = draw(st.integers(3, 8))
  if draw(st.booleans()):
    pool = [[float(draw(st.integers(-3, 3))) for _ in range(d)] for _ in range(npts)]
  else:
    pool = [[draw(gen.moderate_float(-50, 50)) for _ in range(d)] for _ in range(npts)]
  ts = SIZE[name]
  tuples = draw(st.lists(st.lists(st.integers(0, npts - 1), min_size=ts, max_size=ts), min_size=2, max_size=14))
  # forced ties
  forced = draw(st.lists(st.sampled_from(['repeat', 'collapse', 'swap']), max_size=3))
  for f in forced:
    t = list(tuples[draw(st.integers(0, len(tuples) - 1))])
    if f == 'repeat':
      tuples.append(t)
    elif f == 'collapse':
      if ts == 2:
        t[1] = t[0]
      elif ts == 3:
        t[2] = t[1]
      else:
        t[2], t[3] = t[0], t[1]
      tuples.append(t)
    else:
      if ts == 2:
        t = [t[1], t[0]]
      elif ts == 3:
        t = [t[0], t[2], t[1]]
      else:
        t = [t[1], t[0], t[3], t[2]] if draw(st.booleans()) else [t[0], t[1], t[1], t[0]]
      tuples.append(t)
  case = dict(model=m, pool=pool, tuples=tuples, preproc=draw(st.booleans()),
              pool_repr=draw(st.sampled_from(['f64', 'f64', 'f64', 'f32', 'f32-huge', 'f32-tiny', 'f64-huge', 'f64-tiny'])))
  if ts == 2:
    labels = draw(st.lists(st.sampled_from([1, -1]), min_size=len(tuples), max_size=len(tuples)))
    labels[0], labels[1] = 1, -1
    case['labels'] = labels
    ops = []
    for _ in range(draw(st.integers(0, 4))):
      kind = draw(st.sampled_from(['set', 'set', 'calibrate', 'fit', 'bad-set']))
      if kind == 'set':
        ops.append(dict(op='set', how=draw(st.sampled_from(['dist', 'dist_up', 'dist_down', 'zero', 'neg', 'inf',
                                                             'float', 'int', 'str', 'f32'])),
                        j=draw(st.integers(0, len(tuples) - 1)),
                        val=draw(st.floats(-5, 200, allow_nan=False, width=64))))
      elif kind == 'bad-set':
        ops.append(dict(op='bad-set', what=draw(st.sampled_from(['none', 'word', 'list', 'complex']))))
      elif kind == 'calibrate':
        ops.append(dict(op='calibrate', strategy=draw(st.sampled_from(['accuracy', 'f_beta', 'max_tpr', 'max_tnr'])),
                        beta=draw(st.sampled_from([0.5, 1.0, 2.0])), min_rate=draw(st.sampled_from([0.0, 0.3, 0.7, 1.0]))))
      else:
        ops.append(dict(op='fit', cal=draw(st.sampled_from([None, 'accuracy', 'f_beta', 'max_tpr']))))
    case['ops'] = ops
  return case


def auc(y, score):
  pos = [s for s, l in zip(score, y) if l == 1]
  neg = [s for s, l in zip(score, y) if l == -1]
  tot = 0.0
  for p in pos:
    for q in neg:
      tot += 1.0 if p > q else (0.5 if p == q else 0.0)
  return tot / (len(pos) * len(neg))


def check_c04(case, stats):
  m = case['model']
  name = m['est']
  ts = SIZE[name]
  pool = np.array(case['pool'], dtype=float)
  rep = case.get('pool_repr', 'f64')
  # every finite test tuple: single precision points, and points on a scale far from the training data
  pool = (pool * {'huge': 1e20, 'tiny': 1e-25}.get(rep[4:], 1.0)).astype(np.float32 if rep.startswith('f32') else np.float64)
  idx = np.array(case['tuples'], dtype=int)
  data = gen.Data(m['desc'])
  extra = {'preprocessor': pool} if case['preproc'] else {}
  params = E.materialize(name, m['opts'], data, m['aseed'], extra)
  est = E.build(name, params)
  fa = E.fit_args(name, data)
  r = E.fit_call('C04/fit', name, est, fa, m['desc'], params, expect=(RuntimeError,) if name == 'SDML' else ())
  if isinstance(r, Exception):
    raise Discard('SDML RuntimeError (specified outcome)')
  if not np.isfinite(np.asarray(est.components_)).all():
    raise Discard('non-finite components_')
  formed = pool[idx]
  arg = idx if case['preproc'] else formed

  L = np.asarray(est.components_, dtype=float)
  smax = float(np.linalg.norm(L, 2)) if L.size else 0.0
  eps_in = 1.2e-7 if rep.startswith('f32') else 2.3e-16

  def pdist(cols):
    sub = idx[:, cols] if case['preproc'] else formed[:, cols]
    got = np.asarray(call('C04/pair_distance/' + name, est.pair_distance, sub))
    # the learned distance itself, evaluated in double precision on the very same coordinate values
    a64, b64 = formed[:, cols[0]].astype(np.float64), formed[:, cols[1]].astype(np.float64)
    ref = np.sqrt((((b64 - a64).dot(L.T)) ** 2).sum(axis=1))
    tol = 1e-9 * ref + 8 * eps_in * math.sqrt(L.shape[1]) * smax * (np.abs(a64).max(axis=1) + np.abs(b64).max(axis=1))
    if got.shape != ref.shape or not (np.abs(got - ref) <= tol).all():
      raise Violation('C04/learned-distance/%s/%s' % (name, rep),
                      'pair_distance %s vs sqrt((x-x\')^T M (x-x\')) %s (tolerance %s)' % (got.tolist(), ref.tolist(), tol.tolist()))
    return got

  classes = [name, 'preproc' if case['preproc'] else 'formed', 'pool:' + rep]
  nontrivial = False
  if ts == 2:
    y = np.array(case['labels'])
    dist = pdist([0, 1])
    ties = len(set(dist.tolist())) < len(dist)

    def verify(where):
      nonlocal nontrivial
      thr = est.threshold_
      if not isinstance(thr, float):
        try:
          thr = float(thr)
        except Exception:
          raise Violation('C04/threshold-type/' + name, '%s: threshold_ = %r' % (where, est.threshold_))
      pred = np.asarray(call('C04/predict/' + name, est.predict, arg))
      exp = np.where(dist <= thr, 1, -1)
      if pred.shape != exp.shape or not np.array_equal(pred, exp):
        raise Violation('C04/pairs-predict/%s/%s' % (name, where),
                        'threshold %r dist %s predict %s expected %s' % (thr, dist.tolist(), pred.tolist(), exp.tolist()))
      dec = np.asarray(call('C04/decision_function/' + name, est.decision_function, arg))
      if not np.array_equal(dec, -dist):
        raise Violation('C04/pairs-decision/' + name, '%s vs %s' % (dec, -dist))
      if dist.size and np.isfinite(thr):
        near = np.abs(dist - thr) <= 4 * np.spacing(abs(thr))
        if near.any():
          nontrivial = True
          classes.append('dist-at-threshold')

    verify('after-fit')
    sc = call('C04/score/' + name, est.score, arg, y)
    ref = auc(y, -dist)
    if not abs(sc - ref) <= 1e-12:
      raise Violation('C04/pairs-score-auc/' + name, 'score %r vs brute-force AUC %r (dist %s, y %s)' % (sc, ref, dist.tolist(), y.tolist()))
    n_thr_ops = 0
    for op in case.get('ops', []):
      if op['op'] == 'set':
        j = min(op['j'], len(dist) - 1)
        how = op['how']
        t = {'dist': dist[j], 'dist_up': np.nextafter(dist[j], np.inf), 'dist_down': np.nextafter(dist[j], -np.inf),
             'zero': 0.0, 'neg': -abs(op['val']) - 1.0, 'inf': float('inf'), 'float': op['val'],
             'int': int(op['val']), 'str': repr(float(op['val'])), 'f32': np.float32(op['val'])}[how]
        before = np.where(dist <= est.threshold_, 1, -1)
        old = est.threshold_
        r = call('C04/set_threshold/' + name, est.set_threshold, t)
        if r is not est:
          raise Violation('C04/set_threshold-returns-self/' + name, repr(r))
        if not (type(est.threshold_) is float and est.threshold_ == float(t)):
          raise Violation('C04/set_threshold-stores-float/' + name, 'set %r, stored %r' % (t, est.threshold_))
        verify('after-set-' + how)
        after = np.where(dist <= est.threshold_, 1, -1)
        pa = np.asarray(est.predict(arg))
        # monotone in the threshold
        if est.threshold_ >= old and ((before == 1) & (pa == -1)).any():
          raise Violation('C04/monotone/' + name, 'raising the threshold removed a +1')
        if est.threshold_ <= old and ((before == -1) & (pa == 1)).any():
          raise Violation('C04/monotone/' + name, 'lowering the threshold added a +1')
        n_thr_ops += 1
      elif op['op'] == 'bad-set':
        bad = {'none': None, 'word': 'abc', 'list': [1.0, 2.0], 'complex': 1 + 2j}[op['what']]
        old = est.threshold_
        r = call('C04/set_threshold-bad/' + name, est.set_threshold, bad, expect=(ValueError,))
        if not isinstance(r, ValueError):
          raise Violation('C04/set_threshold-accepts-non-number/' + name, 'set_threshold(%r) did not raise ValueError' % (bad,))
        if est.threshold_ != old:
          raise Violation('C04/set_threshold-bad-changed-state/' + name, '')
      elif op['op'] == 'calibrate':
        kw = dict(strategy=op['strategy'])
        if op['strategy'] == 'f_beta':
          kw['beta'] = op['beta']
        if op['strategy'] in ('max_tpr', 'max_tnr'):
          kw['min_rate'] = op['min_rate']
        call('C04/calibrate_threshold/' + name, est.calibrate_threshold, arg, y, **kw)
        verify('after-calibrate-' + op['strategy'])
        n_thr_ops += 1
      else:
        kw = {}
        if op['cal'] is not None:
          cp = dict(strategy=op['cal'])
          if op['cal'] == 'max_tpr':
            cp['min_rate'] = 0.5
          kw['calibration_params'] = cp
        r = E.fit_call('C04/refit', name, est, fa, m['desc'], params,
                       expect=(RuntimeError,) if name == 'SDML' else (), kw=kw)
        if isinstance(r, Exception):
          raise Discard('SDML RuntimeError (specified outcome)')
        dist = pdist([0, 1])
        verify('after-refit')
        n_thr_ops += 1
    nontrivial = nontrivial or ties or n_thr_ops >= 2
    if ties:
      classes.append('ties')
    classes.append('ops=%d' % min(n_thr_ops, 3))
  elif ts == 3:
    dab, dac = pdist([0, 1]), pdist([0, 2])
    dec = np.asarray(call('C04/decision_function/' + name, est.decision_function, arg))
    if not np.array_equal(dec, dac - dab):
      raise Violation('C04/triplets-decision/' + name, 'decision %s vs d(a,c)-d(a,b) %s' % (dec, dac - dab))
    pred = np.asarray(call('C04/predict/' + name, est.predict, arg))
    exp = np.where(dab < dac, 1, -1)
    if not np.array_equal(pred, exp):
      raise Violation('C04/triplets-predict/' + name, 'd(a,b)=%s d(a,c)=%s predict %s' % (dab.tolist(), dac.tolist(), pred.tolist()))
    sc = call('C04/score/' + name, est.score, arg)
    if not abs(sc - float(np.mean(exp == 1))) <= 1e-12:
      raise Violation('C04/triplets-score/' + name, 'score %r vs fraction predicted +1 %r' % (sc, float(np.mean(exp == 1))))
    sw = idx[:, [0, 2, 1]] if case['preproc'] else formed[:, [0, 2, 1]]
    dsw = np.asarray(call('C04/decision_function/' + name, est.decision_function, sw))
    if not np.array_equal(dsw, -dec):
      raise Violation('C04/triplets-swap-negates/' + name, '%s vs %s' % (dsw, -dec))
    ties = bool((dab == dac).any())
    nontrivial = ties
    classes.append('ties' if ties else 'no-ties')
  else:
    dab, dcd = pdist([0, 1]), pdist([2, 3])
    dec = np.asarray(call('C04/decision_function/' + name, est.decision_function, arg))
    if not np.array_equal(dec, dcd - dab):
      raise Violation('C04/quadruplets-decision/' + name, 'decision %s vs d(c,d)-d(a,b) %s' % (dec, dcd - dab))
    pred = np.asarray(call('C04/predict/' + name, est.predict, arg))
    exp = np.sign(dcd - dab)
    if not np.array_equal(pred, exp):
      raise Violation('C04/quadruplets-predict/' + name, 'predict %s expected %s' % (pred.tolist(), exp.tolist()))
    sc = call('C04/score/' + name, est.score, arg)
    if not abs(sc - (float(np.mean(exp)) / 2 + 0.5)) <= 1e-12:
      raise Violation('C04/quadruplets-score/' + name, 'score %r' % sc)
    sw = idx[:, [2, 3, 0, 1]] if case['preproc'] else formed[:, [2, 3, 0, 1]]
    dsw = np.asarray(call('C04/decision_function/' + name, est.decision_function, sw))
    if not np.array_equal(dsw, -dec):
      raise Violation('C04/quadruplets-swap-negates/' + name, '%s vs %s' % (dsw, -dec))
    ties = bool((dab == dcd).any())
    nontrivial = ties
    classes.append('ties' if ties else 'no-ties')
  stats.case(case, nontrivial, classes)


CHECKS = {'check_c04': check_c04}
_B = {'quick': 80, 'thorough': 1800}


def shards(tier):
  reps = {'quick': 3, 'thorough': 3}[tier]
  return [dict(name='%s-%d' % (n, i), est=n) for n in NAMES for i in range(reps)]


def run_shard(shard, tier, seed, stats, known_sigs):
  return drive(check_c04, case_strategy(shard['est']), _B[tier], seed, stats, known_sigs, name='check_c04')
