"""C02 - all views of the learned metric agree with M = L^T L."""
import math

import numpy as np
from hypothesis import strategies as st

from ..common import Violation, Discard, call, EPS, sigma_max, recorded_warnings, safe_norm
from ..hyp import drive
from .. import estimators as E, gen

RULE = ('per estimator: model descriptor x pool of 2-8 query points (coordinates in [-1e3,1e3], or '
        'integral) x index pairs into the pool (repeats allowed) x representation {ndarray, nested list, '
        'int64/int32/int16/uint8/uint16/uint32 (integral pools), Fortran order, non-contiguous slice, single-pair batch, indices via '
        'array preprocessor}; near-duplicate pairs (relative 2^-17..2^-45 apart); get_metric called with mixed dtypes. Views compared: pair_distance, get_metric (plain, squared), '
        '||transform(u)-transform(v)||, sqrt((u-v)^T M (u-v)), score_pairs, and a long-double reference '
        '||L(u-v)||. Non-trivial = u != v and non-zero distance; distinct by (model, pool, pair).')
ASSUMPTIONS = ['absolute slack 1e-150 on distances (1e-300 on squared distances): squares of coordinates below ~1e-154 underflow',
               'agreement within 64 eps * sigma_max(L) * sqrt(d) * scale, scale = |u-v| for difference-based '
               'views and |u|+|v| for the transform-then-subtract view; the M view is compared on squared distances',
               'representation variants are compared with the same bound (semantic equality), not bitwise']


@st.composite
def case_strategy(draw, name):
  m = draw(E.model_desc(name))
  d = m['desc']['d']
  integral = draw(st.booleans())
  npts = draw(st.integers(2, 8))
  dtype = draw(st.sampled_from(['int64', 'int32', 'int16', 'uint8', 'uint16', 'uint32', 'uint64', 'bool', 'float32', 'float16']))
  if integral and dtype == 'bool':
    pool = [[float(draw(st.integers(0, 1))) for _ in range(d)] for _ in range(npts)]
  elif integral and (dtype.startswith('u') or dtype == 'float16'):
    pool = [[float(draw(st.integers(0, 200))) for _ in range(d)] for _ in range(npts)]
  elif integral:
    pool = [[float(draw(st.integers(-1000, 1000))) for _ in range(d)] for _ in range(npts)]
  else:
    pool = [[draw(gen.moderate_float()) for _ in range(d)] for _ in range(npts)]
  pairs = draw(st.lists(st.tuples(st.integers(0, npts - 1), st.integers(0, npts - 1)), min_size=1, max_size=12))
  return dict(model=m, pool=pool, integral=integral, pairs=[list(p) for p in pairs],
              dtype=dtype, near=draw(st.integers(0, 2)) == 0, nearexp=draw(st.integers(17, 45)))


def check_c02(case, stats):
  m = dict(case['model'])
  name = m['est']
  pool = np.array(case['pool'], dtype=float)
  idx = np.array(case['pairs'], dtype=int)
  data = gen.Data(m['desc'])
  # the array preprocessor holds the pool in its drawn dtype when the pool is integral (indices then form
  # integer-dtype tuples inside the library)
  prep = pool.astype(case['dtype']) if case['integral'] else pool
  params = E.materialize(name, m['opts'], data, m['aseed'], {'preprocessor': prep})
  est = E.build(name, params)
  r = E.fit_call('C02/fit', name, est, E.fit_args(name, data), m['desc'], params,
                 expect=(RuntimeError,) if 'SDML' in name else ())
  if isinstance(r, Exception):
    raise Discard('SDML RuntimeError (specified outcome)')
  if r is not est:
    raise Violation('C02/fit-returns-self/' + name, 'fit returned %r' % type(r))
  L = np.asarray(est.components_)
  if not (np.isrealobj(L) and np.isfinite(L).all()):
    raise Discard('components_ not real/finite (C03 territory)')
  k, d = L.shape
  smax = sigma_max(L)
  rt = math.sqrt(d)
  M = np.asarray(call('C02/get_mahalanobis_matrix', est.get_mahalanobis_matrix))
  LtL = L.astype(np.longdouble).T.dot(L.astype(np.longdouble)).astype(float)
  if M.shape != (d, d):
    raise Violation('C02/M-shape/' + name, '%s' % (M.shape,))
  if np.abs(M - LtL).max() > 16 * d * EPS * smax ** 2 + 1e-300:
    raise Violation('C02/M-is-LtL/' + name, 'max|M - L^T L| = %g' % np.abs(M - LtL).max())
  if np.abs(M - M.T).max() > 4 * EPS * smax ** 2:
    raise Violation('C02/M-symmetric/' + name, 'max asym %g' % np.abs(M - M.T).max())
  wmin = np.linalg.eigvalsh((M + M.T) / 2).min()
  if wmin < -8 * d * EPS * max(smax ** 2, 1e-300):
    raise Violation('C02/M-psd/' + name, 'lambda_min = %g' % wmin)
  # transform is X -> X L^T
  T = np.asarray(call('C02/transform/' + name, est.transform, pool))
  if T.shape != (len(pool), k):
    raise Violation('C02/transform-shape/' + name, '%s, expected %s' % (T.shape, (len(pool), k)))
  Tref = pool.astype(np.longdouble).dot(L.astype(np.longdouble).T).astype(float)
  bound_pts = 64 * EPS * smax * rt * safe_norm(pool, axis=1, keepdims=True) + 1e-150
  if (np.abs(T - Tref) > bound_pts).any():
    raise Violation('C02/transform-is-XLt/' + name, 'max dev %g' % np.abs(T - Tref).max())
  metric = call('C02/get_metric', est.get_metric)
  if k < d and np.linalg.matrix_rank(L) < d:
    # rank-deficient transform: add a pair whose difference lies in the null space of L (true distance 0)
    _, _, Vt = np.linalg.svd(L)
    n_orig = len(idx)
    pool = np.vstack([pool, pool[0] + (1.0 + np.abs(pool[0]).max()) * Vt[-1]])
    idx = np.vstack([idx, [0, len(pool) - 1], [len(pool) - 1, 0]])
    T = np.asarray(call('C02/transform/' + name, est.transform, pool))
    bound_pts = 64 * EPS * smax * rt * safe_norm(pool, axis=1, keepdims=True) + 1e-150
    stats.classes['nullspace-pair'] += 1
  else:
    n_orig = len(idx)
  if case.get('near'):
    # a pair of distinct points that agree to a relative 2^-nearexp in every coordinate (a copy that went
    # through another precision, a re-measured sample): a small but non-zero distance
    q = pool[0] * (1.0 + 2.0 ** -case['nearexp'])
    if (q != pool[0]).any():
      pool = np.vstack([pool, q])
      idx = np.vstack([idx, [0, len(pool) - 1], [len(pool) - 1, 0]])
      T = np.asarray(call('C02/transform/' + name, est.transform, pool))
      bound_pts = 64 * EPS * smax * rt * safe_norm(pool, axis=1, keepdims=True) + 1e-150
      stats.classes['near-duplicate-pair'] += 1
  formed = pool[idx]                       # (m, 2, d)
  pd = np.asarray(call('C02/pair_distance/' + name, est.pair_distance, formed))
  with recorded_warnings() as w:
    sp = np.asarray(call('C02/score_pairs/' + name, est.score_pairs, formed))
  if not any(issubclass(x.category, FutureWarning) for x in w):
    raise Violation('C02/score_pairs-no-FutureWarning/' + name, 'deprecated score_pairs did not warn')
  if not np.array_equal(sp, pd):
    raise Violation('C02/score_pairs-differs/' + name, '%s vs %s' % (sp, pd))
  # representation variants
  variants = {'list': formed.tolist(), 'fortran': np.asfortranarray(formed),
              'noncontig': np.concatenate([formed, formed], axis=2)[:, :, :d] if d else formed,
              'indices': idx[:n_orig]}
  big = np.zeros((len(idx), 2, 2 * d))
  big[:, :, ::2] = formed
  variants['strided'] = big[:, :, ::2]
  if case['integral'] and (case['dtype'] != 'int16' or np.abs(formed).max() < 32000):
    variants[case['dtype']] = formed[:n_orig].astype(case['dtype'])     # the appended null-space point is not integral
  for vn, arr in variants.items():
    out = np.asarray(call('C02/pair_distance[%s]/%s' % (vn, name), est.pair_distance, arr))
    bnd = 8 * EPS * smax * rt * safe_norm(formed[:, 0] - formed[:, 1], axis=1) + 1e-150
    if vn == 'indices' or vn == case['dtype']:
      if out.shape != pd[:n_orig].shape or (np.abs(out - pd[:n_orig]) > bnd[:n_orig]).any():
        raise Violation('C02/representation/%s/%s' % (vn, name), 'pair_distance %s vs %s' % (out, pd[:n_orig]))
    elif out.shape != pd.shape or (np.abs(out - pd) > bnd).any():
      raise Violation('C02/representation/%s/%s' % (vn, name), 'pair_distance %s vs %s' % (out, pd))
    stats.classes['repr:' + vn] += 1
  tvars = {'list': pool.tolist(), 'fortran': np.asfortranarray(pool)}
  for vn, arr in tvars.items():
    out = np.asarray(call('C02/transform[%s]/%s' % (vn, name), est.transform, arr))
    if out.shape != T.shape or (np.abs(out - T) > bound_pts).any():
      raise Violation('C02/representation-transform/%s/%s' % (vn, name), 'max dev %g' % np.abs(out - T).max())
  Lq = L.astype(np.longdouble)
  for j, (a, b) in enumerate(idx):
    u, v = pool[a], pool[b]
    diff = u - v
    nd = float(safe_norm(diff))
    ref = float(np.sqrt(((Lq.dot(diff.astype(np.longdouble))) ** 2).sum()))
    bnd = 64 * EPS * smax * rt * nd + 1e-150
    single = float(np.asarray(call('C02/pair_distance-single/' + name, est.pair_distance, formed[j:j + 1]))[0])
    gm = float(call('C02/get_metric()/' + name, metric, u, v))
    gsq = float(call('C02/get_metric(squared)/' + name, metric, u, v, squared=True))
    glist = float(call('C02/get_metric(list)/' + name, metric, u.tolist(), v.tolist()))
    if case['integral'] and j < n_orig:
      gint = float(call('C02/get_metric(%s)/%s' % (case['dtype'], name), metric, u.astype(case['dtype']), v.astype(case['dtype'])))
    else:
      gint = gm
    # the metric function takes two separate arrays: mixed dtypes (float32 point against a float64 point,
    # integer-dtype point against a float one) - reference on the values actually passed
    mixed = [('float32-vs-float64', u.astype(np.float32), v)]
    if case['integral'] and j < n_orig:
      mixed.append(('%s-vs-float64' % case['dtype'], u.astype(case['dtype']), v + 0.25))
    for mn, uu, vv in mixed:
      u64 = np.asarray(uu, dtype=np.float64)
      if not np.isfinite(u64).all():
        continue
      dm = u64 - np.asarray(vv, dtype=np.float64)
      refm = float(np.sqrt(((Lq.dot(dm.astype(np.longdouble))) ** 2).sum()))
      gmx = float(call('C02/get_metric(%s)/%s' % (mn, name), metric, uu, vv))
      if not abs(gmx - refm) <= 64 * EPS * smax * rt * float(safe_norm(dm)) + 1e-150:
        raise Violation('C02/view/get_metric-mixed-dtypes/%s/%s' % (mn.split('-')[0] if mn.startswith('float32') else 'int', name),
                        '%s: %r vs reference %r' % (mn, gmx, refm))
    views = {'pair_distance': float(pd[j]), 'pair_distance-single': single, 'get_metric': gm,
             'get_metric-list-input': glist, 'get_metric-%s-input' % (case['dtype'] if case['integral'] else 'float'): gint}
    for vn, val in views.items():
      if not abs(val - ref) <= bnd:
        raise Violation('C02/view/%s/%s' % (vn, name), '%r vs reference %r (bound %g)' % (val, ref, bnd))
    if not abs(gsq - ref ** 2) <= 128 * EPS * d * (smax * nd) ** 2 + 1e-300:
      raise Violation('C02/view/get_metric-squared/' + name, '%r vs reference^2 %r' % (gsq, ref ** 2))
    tdist = float(safe_norm(T[a] - T[b]))
    if not abs(tdist - ref) <= 64 * EPS * smax * rt * (safe_norm(u) + safe_norm(v)) + 1e-150:
      raise Violation('C02/view/transform-distance/' + name, '%r vs %r' % (tdist, ref))
    dq = diff.astype(np.longdouble)
    msq = float(dq.dot(M.astype(np.longdouble)).dot(dq))
    if not abs(msq - ref ** 2) <= 128 * EPS * d * (smax * nd) ** 2 + 1e-300:
      raise Violation('C02/view/mahalanobis-matrix/' + name, '(u-v)^T M (u-v) = %r vs reference^2 %r' % (msq, ref ** 2))
    stats.case(dict(model=m, pool=case['pool'], pair=[int(a), int(b)]), a != b and ref > 0,
               [name, 'integral' if case['integral'] else 'float', 'lowrank' if k < d else 'fullrank'])


CHECKS = {'check_c02': check_c02}
_B = {'quick': 30, 'thorough': 1200}


def shards(tier):
  return [dict(name=n, est=n) for n in E.ALL]


def run_shard(shard, tier, seed, stats, known_sigs):
  return drive(check_c02, case_strategy(shard['est']), _B[tier], seed, stats, known_sigs, name='check_c02')
