"""C05 - indices + preprocessor are interchangeable with formed points/tuples."""
import numpy as np
from hypothesis import strategies as st

from ..common import Violation, Discard, call, mlsub, bits_equal
from ..hyp import drive
from .. import estimators as E, gen

RULE = ('17 estimators x preprocessor kind {ndarray, nested list, counting callable} x pool = training points '
        'interleaved with decoy rows in a drawn order x index arrays (arbitrary order, repeats for queries, dtype '
        'in int8..int64/uint8..uint64/Python ints; sorted / reversed; C, Fortran, transposed-view and strided memory layouts) x every data-taking method (fit, transform, pair_distance, '
        'pair_score, predict, decision_function, score, calibrate_threshold). Differential oracle: estimator fed '
        'indices+preprocessor vs an identical estimator fed the formed arrays: components_, threshold_, '
        'n_features_in_ and every output bitwise equal; formed data never consults a callable preprocessor; a '
        'raising preprocessor surfaces as PreprocessorError; tuple learners are then refitted / recalibrated on the '
        'same two estimators through the SAME index buffer refilled in place with other tuples. Non-trivial = index array unsorted or with a repeat '
        'and (tuples) some tuple with two different indices; distinct by canonical case.')
ASSUMPTIONS = ['outputs compared bitwise (identical arrays reach the numeric kernels)',
               'LFDA: ARPACK eigsh starts from a random vector, so its components_ are compared through M = L^T L, '
               '|transform| and distances at rtol 1e-7 (sign of each eigenvector is arbitrary)']

DTYPES = ['int8', 'int16', 'int32', 'int64', 'uint8', 'uint16', 'uint32', 'uint64', 'pyint']


@st.composite
def case_strategy(draw, name):
  m = draw(E.model_desc(name, dmax=4, scales=False))
  n = sum(m['desc']['sizes'])
  return dict(model=m, kind=draw(st.sampled_from(['ndarray', 'list', 'callable'])),
              dtype=draw(st.sampled_from(DTYPES)), pool_seed=draw(st.integers(0, 9999)),
              q_points=draw(st.lists(st.integers(0, n - 1), min_size=1, max_size=10)),
              q_tuples=draw(st.lists(st.lists(st.integers(0, n - 1), min_size=4, max_size=4), min_size=2, max_size=8)),
              exc=draw(st.sampled_from(['IndexError', 'KeyError', 'RuntimeError', 'ValueError', 'ZeroDivisionError'])),
              order=draw(st.sampled_from(['drawn', 'sorted', 'sorted', 'reversed'])),
              layout=draw(st.sampled_from(['c', 'c', 'fortran', 'transposed-view', 'strided'])))


class Counting:
  def __init__(self, P):
    self.P = P
    self.calls = 0

  def __call__(self, idx):
    self.calls += 1
    return self.P[idx]


LAYOUT = {'v': 'c'}


def cast(idx, dtype):
  idx = np.asarray(idx)
  if dtype == 'pyint':
    return idx.tolist()
  out = idx.astype(dtype)
  lay = LAYOUT['v']
  if out.ndim == 2 and lay == 'fortran':
    return np.asfortranarray(out)
  if out.ndim == 2 and lay == 'transposed-view':
    return np.ascontiguousarray(out.T).T
  if lay == 'strided':
    big = np.zeros(tuple(2 * n for n in out.shape), dtype=out.dtype)
    sl = tuple(slice(None, None, 2) for _ in out.shape)
    big[sl] = out
    return big[sl]
  return out


def same_lfda(a, b):
  """LFDA uses ARPACK with a random start vector: rows of components_ (columns of transform) are
  determined up to sign and to ARPACK's (machine-precision) tolerance."""
  a, b = np.asarray(a, dtype=float), np.asarray(b, dtype=float)
  if a.shape != b.shape:
    return False
  if a.ndim < 2:
    return bool(np.allclose(a, b, rtol=1e-7, atol=1e-12 * (np.abs(a).max() + 1e-300)))
  return True


def same(a, b, lfda=False):
  if lfda:
    return same_lfda(a, b)
  if isinstance(a, np.ndarray) or isinstance(b, np.ndarray):
    return bits_equal(np.asarray(a), np.asarray(b))
  return type(a) is type(b) and (a == b or (a != a and b != b))


def check_c05(case, stats):
  m = case['model']
  name = m['est']
  kind = E.KIND[name]
  LAYOUT['v'] = case.get('layout', 'c')
  data = gen.Data(m['desc'])
  n, d = data.n, data.d
  rs = np.random.RandomState(case['pool_seed'])
  # pool: the training points scattered among decoy rows; pos[i] = row of training point i
  total = n + 5
  if case['dtype'] in ('int8',) and total > 127:
    raise Discard('pool too large for int8')
  pos = rs.permutation(total)[:n]
  pool = rs.randn(total, d) * 7.0
  pool[pos] = data.X
  prep = {'ndarray': pool, 'list': pool.tolist(), 'callable': Counting(pool)}[case['kind']]
  paramsA = E.materialize(name, m['opts'], data, m['aseed'], {'preprocessor': prep})
  paramsB = E.materialize(name, m['opts'], data, m['aseed'])
  A, B = E.build(name, paramsA), E.build(name, paramsB)
  dt = case['dtype']
  if kind in ('X', 'Xy', 'Xyreal', 'Xchunks'):
    idx_fit = cast(pos, dt)
    formed = pool[pos]
    rest = {'X': (), 'Xy': (data.y,), 'Xyreal': (data.yreal,), 'Xchunks': (data.chunks,)}[kind]
    argsA, argsB = (idx_fit,) + rest, (formed,) + rest
    fit_idx = np.asarray(pos)
  else:
    tidx = {'pairs': data.pairs_idx[0], 'triplets': data.triplets_idx, 'quads': data.quads_idx}[kind]
    idx_fit = cast(pos[tidx], dt)
    formed = pool[pos[tidx]]
    rest = (data.ypairs,) if kind == 'pairs' else ()
    argsA, argsB = (idx_fit,) + rest, (formed,) + rest
    fit_idx = pos[tidx]
  exp = (RuntimeError,) if 'SDML' in name else ()
  rA = E.fit_call('C05/fit-indices', name, A, argsA, m['desc'], paramsA, expect=exp)
  rB = E.fit_call('C05/fit-formed', name, B, argsB, m['desc'], paramsB, expect=exp)
  if isinstance(rA, Exception) or isinstance(rB, Exception):
    if type(rA) is not type(rB):
      raise Violation('C05/fit-outcome-differs/' + name, 'indices: %r formed: %r' % (rA, rB))
    raise Discard('SDML RuntimeError (specified outcome)')
  tag = '%s/%s' % (name, case['kind'])
  lf = name == 'LFDA'
  for attr in ('components_', 'threshold_', 'n_features_in_', 'bounds_'):
    if lf and attr == 'components_':
      MA, MB = A.get_mahalanobis_matrix(), B.get_mahalanobis_matrix()
      if not np.allclose(MA, MB, rtol=1e-7, atol=1e-9 * np.abs(MB).max()):
        raise Violation('C05/fit/mahalanobis/' + tag, 'LFDA M differs: %r vs %r' % (MA, MB))
      continue
    if hasattr(A, attr) != hasattr(B, attr) or (hasattr(A, attr) and not same(getattr(A, attr), getattr(B, attr))):
      raise Violation('C05/fit/%s/%s' % (attr, tag), 'indices+preprocessor: %r  formed: %r'
                      % (getattr(A, attr, None), getattr(B, attr, None)))
  # query methods
  qp = np.array(case['q_points']) % n
  qt = np.array(case['q_tuples']) % n
  if case.get('order', 'drawn') != 'drawn':
    # non-decreasing (or non-increasing) indicators with repeats and gaps: the shapes on which a
    # "contiguous range" shortcut would be wrong
    inv = np.argsort(pos)
    qp = np.sort(qp)
    qt = np.sort(qt, axis=0)
    # make the POOL rows ascending too: pos[q] must be monotone for the shortcut to be tempted
    order_pos = np.sort(pos)
    rank = np.searchsorted(order_pos, pos)          # rank of each training point's pool row
    by_rank = np.argsort(rank)
    qp = by_rank[np.sort(rank[qp])]
    qt = by_rank[np.sort(rank[qt], axis=0)]
    if case['order'] == 'reversed':
      qp, qt = qp[::-1], qt[::-1]
  calls = []
  calls.append(('transform', (cast(pos[qp], dt),), (pool[pos[qp]],)))
  pi = pos[qt[:, :2]]
  calls.append(('pair_distance', (cast(pi, dt),), (pool[pi],)))
  calls.append(('pair_score', (cast(pi, dt),), (pool[pi],)))
  if name in E.TUPLE_LEARNERS:
    ts = E.TUPLE_SIZE[kind]
    ti = pos[qt[:, :ts]]
    calls.append(('decision_function', (cast(ti, dt),), (pool[ti],)))
    calls.append(('predict', (cast(ti, dt),), (pool[ti],)))
    if ts == 2:
      yq = np.where(np.arange(len(ti)) % 2 == 0, 1, -1)
      calls.append(('score', (cast(ti, dt), yq), (pool[ti], yq)))
    else:
      calls.append(('score', (cast(ti, dt),), (pool[ti],)))
  # extra query rounds over the POOL rows themselves (decoys included): index vectors in the shapes that tempt
  # shortcuts - consecutive runs with one repeat and one gap, fully consecutive runs, random order, all in the
  # drawn dtype and memory layout
  rsq = np.random.RandomState(case['pool_seed'] + 1)
  for rnd in range(6):
    m_ = rsq.randint(3, min(9, total))
    s_ = rsq.randint(0, total - m_ + 1)
    run = np.arange(s_, s_ + m_)
    if rnd % 3 == 0:
      j = rsq.randint(1, m_ - 1)
      run[j] = run[j - 1]                    # sorted, one repeat, one gap, last - first == len - 1
    elif rnd % 3 == 1:
      run = rsq.permutation(total)[:m_]
    calls.append(('transform', (cast(run, dt),), (pool[run],)))
    pr = np.stack([run, np.roll(run, 1)], axis=1)
    calls.append(('pair_distance', (cast(pr, dt),), (pool[pr],)))
  for meth, aA, aB in calls:
    oA = call('C05/%s-indices/%s' % (meth, name), getattr(A, meth), *aA)
    oB = call('C05/%s-formed/%s' % (meth, name), getattr(B, meth), *aB)
    if lf and meth == 'transform':
      oA, oB = np.abs(oA), np.abs(oB)
      if not np.allclose(oA, oB, rtol=1e-7, atol=1e-9 * (np.abs(oB).max() + 1e-300)):
        raise Violation('C05/transform/' + tag, 'LFDA |transform| differs')
      continue
    if not same(np.asarray(oA), np.asarray(oB), lf):
      raise Violation('C05/%s/%s' % (meth, tag), 'indices+preprocessor %r vs formed %r' % (oA, oB))
  # formed data never consults the preprocessor
  if case['kind'] == 'callable':
    prep.calls = 0
    C = E.build(name, paramsA)
    call('C05/fit-formed-with-preprocessor/' + name, C.fit, *argsB)
    for meth, aA, aB in calls:
      oC = call('C05/%s-formed-with-preprocessor/%s' % (meth, name), getattr(C, meth), *aB)
      oB = getattr(B, meth)(*aB)
      if lf and meth == 'transform':
        oC, oB = np.abs(oC), np.abs(oB)
      if not (same(np.asarray(oC), np.asarray(oB)) if not lf else np.allclose(oC, oB, rtol=1e-7, atol=1e-9 * (np.abs(oB).max() + 1e-300))):
        raise Violation('C05/formed-with-preprocessor/%s/%s' % (meth, name), '%r vs %r' % (oC, oB))
    if prep.calls != 0:
      raise Violation('C05/preprocessor-consulted-on-formed-data/' + name, '%d calls' % prep.calls)
    if not lf and not same(np.asarray(C.components_), np.asarray(B.components_)):
      raise Violation('C05/fit-formed-with-preprocessor/' + name, 'components_ differ')
  if name in E.PAIRS:
    ti = pos[qt[:, :2]]
    yq = np.where(np.arange(len(ti)) % 2 == 0, 1, -1)
    for strat, kw in (('accuracy', {}), ('f_beta', dict(beta=2.0)), ('max_tpr', dict(min_rate=0.5))):
      call('C05/calibrate-indices/' + name, A.calibrate_threshold, cast(ti, dt), yq, strategy=strat, **kw)
      call('C05/calibrate-formed/' + name, B.calibrate_threshold, pool[ti], yq, strategy=strat, **kw)
      if not same(A.threshold_, B.threshold_):
        raise Violation('C05/calibrate_threshold/%s' % tag, '%r vs %r' % (A.threshold_, B.threshold_))
  # second round on the SAME estimators: the caller's index buffer refilled in place with other tuples of the
  # same shape (a bootstrap loop that reuses its buffer) - every call, not only the first, must equal formed data
  if kind in ('pairs', 'triplets', 'quads') and isinstance(idx_fit, np.ndarray) and len(tidx) >= 8:
    # two well-formed training sets of one shape: the even and the odd rows of the drawn tuples
    h = len(tidx) // 2
    ev, od = np.asarray(tidx)[0:2 * h:2], np.asarray(tidx)[1:2 * h:2]
    rest_ev = (np.asarray(data.ypairs)[0:2 * h:2],) if kind == 'pairs' else ()
    rest_od = (np.asarray(data.ypairs)[1:2 * h:2],) if kind == 'pairs' else ()
    if kind == 'pairs' and (len(set(rest_ev[0].tolist())) < 2 or len(set(rest_od[0].tolist())) < 2):
      raise Discard('half of the pairs has one label only')
    buf = cast(pos[ev], dt)
    tidx2 = od
    r1 = E.fit_call('C05/refit-indices', name, A, (buf,) + rest_ev, m['desc'], paramsA, expect=exp)
    if isinstance(r1, Exception):
      raise Discard('SDML RuntimeError (specified outcome)')
    buf[...] = pos[od].astype(buf.dtype)
    rA = E.fit_call('C05/refit-indices', name, A, (buf,) + rest_od, m['desc'], paramsA, expect=exp)
    rB = E.fit_call('C05/refit-formed', name, B, (pool[pos[od]],) + rest_od, m['desc'], paramsB, expect=exp)
    if isinstance(rA, Exception) or isinstance(rB, Exception):
      if type(rA) is not type(rB):
        raise Violation('C05/refit-outcome-differs/' + name, 'indices: %r formed: %r' % (rA, rB))
      raise Discard('SDML RuntimeError (specified outcome)')
    for attr in ('components_', 'threshold_', 'bounds_'):
      if hasattr(A, attr) != hasattr(B, attr) or (hasattr(A, attr) and not same(getattr(A, attr), getattr(B, attr))):
        raise Violation('C05/refit-same-buffer/%s/%s' % (attr, tag), 'indices+preprocessor: %r  formed: %r'
                        % (getattr(A, attr, None), getattr(B, attr, None)))
    if name in E.PAIRS:
      # calibrate twice through one buffer holding different validation pairs
      vbuf = np.ascontiguousarray(buf)
      yv = np.where(np.arange(len(vbuf)) % 2 == 0, 1, -1)
      for shift in (0, 1):
        vbuf[...] = np.roll(pos[tidx2][: len(vbuf)], shift, axis=0).astype(vbuf.dtype)
        call('C05/calibrate-indices/' + name, A.calibrate_threshold, vbuf, yv, strategy='accuracy')
        call('C05/calibrate-formed/' + name, B.calibrate_threshold, pool[vbuf.astype(np.int64)], yv, strategy='accuracy')
        if not same(A.threshold_, B.threshold_):
          raise Violation('C05/calibrate-same-buffer/%s' % tag, '%r vs %r' % (A.threshold_, B.threshold_))
    stats.classes['refit-through-refilled-buffer'] += 1
  # a raising preprocessor surfaces as PreprocessorError
  PE = mlsub('exceptions').PreprocessorError
  exc_type = {'IndexError': IndexError, 'KeyError': KeyError, 'RuntimeError': RuntimeError,
              'ValueError': ValueError, 'ZeroDivisionError': ZeroDivisionError}[case['exc']]

  def boom(_):
    raise exc_type('boom')
  paramsD = dict(paramsA)
  paramsD['preprocessor'] = boom
  D = E.build(name, paramsD)
  r = call('C05/fit-raising-preprocessor/' + name, D.fit, *argsA, expect=(PE,))
  if not isinstance(r, PE):
    raise Violation('C05/preprocessor-error/fit/' + name, 'fit returned instead of raising PreprocessorError')
  A.preprocessor_ = boom      # fitted estimator whose preprocessor starts failing
  for meth, aA, aB in calls:
    r = call('C05/%s-raising-preprocessor/%s' % (meth, name), getattr(A, meth), *aA, expect=(PE,))
    if not isinstance(r, PE):
      raise Violation('C05/preprocessor-error/%s/%s' % (meth, name), 'returned %r' % (r,))
  flat = np.asarray(fit_idx).ravel()
  unsorted_or_repeat = bool((np.diff(flat) < 0).any() or len(set(flat.tolist())) < flat.size)
  two_diff = np.asarray(fit_idx).ndim == 1 or bool((np.asarray(fit_idx)[:, 0] != np.asarray(fit_idx)[:, 1]).any())
  stats.case(case, unsorted_or_repeat and two_diff, [name, case['kind'], 'dtype:' + dt, 'order:' + case.get('order', 'drawn'), 'layout:' + case.get('layout', 'c')])


CHECKS = {'check_c05': check_c05}
_B = {'quick': 30, 'thorough': 360}


def shards(tier):
  return [dict(name=n, est=n) for n in E.ALL]


def run_shard(shard, tier, seed, stats, known_sigs):
  return drive(check_c05, case_strategy(shard['est']), _B[tier], seed, stats, known_sigs, name='check_c05')
