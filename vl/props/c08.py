"""C08 - supervised variants equal the base learner run on label-derived constraints."""
import numpy as np
from hypothesis import strategies as st

from ..common import Violation, Discard, call, mlsub, recorded_warnings
from ..hyp import drive
from .. import estimators as E, gen, observe

RULE = ('ITML/MMC/SDML/LSML/RCA/SCML _Supervised x hyper-parameters (n_constraints / n_chunks / chunk_size / k_genuine / '
        'k_impostor, prior/init/basis options) x integer seeds x generated (X, y) where in half of the cases 10-40% of the '
        'labels are set to -1 at drawn positions (position 0 included).  DIFFERENTIAL: Sup(params, random_state=s).fit(X, y) vs '
        'Base(params).fit(constraints built with the public Constraints helper, same s).  METAMORPHIC: moving every unlabeled '
        'point to arbitrary other coordinates leaves the supervised model unchanged.  Non-trivial = the model is neither zero '
        'nor the prior, and (metamorphic) an unlabeled point moved by more than the data diameter; distinct by canonical case.')
ASSUMPTIONS = ['differential tolerance 1e-10 ||M|| (identical arithmetic expected); LFDA is not involved',
               'SCML_Supervised basis="lda" is built from all of X by clustering (documented), so the metamorphic relation is asserted for triplet_diffs / array bases only; '
               'for the differential the lda basis observed in the supervised fit is handed to the base learner as an array',
               'default n_constraints (None) is exercised only without unknown labels']
NAMES = E.SUPERVISED


@st.composite
def case_strategy(draw, name):
  desc = draw(gen.dataset_desc(dmax=5, scales=False))
  d = desc['d']
  c = dict(est=name, desc=desc, seed=draw(st.integers(0, 10 ** 6)), aseed=draw(st.integers(0, 999)),
           unknown=draw(st.booleans()), ufrac=draw(st.floats(0.1, 0.4, allow_nan=False)), useed=draw(st.integers(0, 9999)),
           n_constraints=draw(st.one_of(st.none(), st.integers(3, 40), st.integers(3, 40), st.integers(120, 500))), mseed=draw(st.integers(0, 9999)))
  if name in ('ITML_Supervised', 'SDML_Supervised', 'LSML_Supervised'):
    c['opt'] = draw(st.sampled_from(['identity', 'covariance', 'random', 'array']))
  elif name == 'MMC_Supervised':
    c['opt'] = draw(st.sampled_from(['identity', 'covariance', 'random', 'array']))
  elif name == 'RCA_Supervised':
    c['opt'] = draw(st.one_of(st.none(), st.integers(1, d)))
    c['chunk_size'] = draw(st.integers(2, 3))
    c['n_chunks'] = draw(st.integers(d + 1, 2 * d + 4))
  else:
    c['opt'] = draw(st.sampled_from(['triplet_diffs', 'array', 'lda']))
    c['kg'] = draw(st.integers(1, 3))
    c['ki'] = draw(st.one_of(st.integers(1, 4), st.integers(1, 4), st.sampled_from([6, 9, 15])))   # also above what small classes offer
    c['n_basis'] = draw(st.integers(d, 12))
  c['weights'] = draw(st.booleans())
  return c


def labels_with_unknown(y, case):
  y = y.copy()
  if not case['unknown']:
    return y
  rs = np.random.RandomState(case['useed'])
  for cl in np.unique(y):
    idx = np.flatnonzero(y == cl)
    k = min(int(round(case['ufrac'] * len(idx))), len(idx) - 3)
    if k > 0:
      y[rs.choice(idx, k, replace=False)] = -1
  if case['useed'] % 2 == 0 and (y == y[0]).sum() > 3:
    y[0] = -1
  return y


def own_wrap_pairs(X, pn):
  """pairs and labels formed by the harness from (a, b, c, d): positives (+1) first, then negatives (-1)"""
  a, b, c, d = [np.asarray(v) for v in pn]
  idx = np.vstack([np.column_stack([a, b]), np.column_stack([c, d])])
  return X[idx], np.r_[np.ones(len(a), dtype=int), -np.ones(len(c), dtype=int)]


def build(name, case, data, y):
  """(supervised params, function fitting the base learner on helper-derived constraints)"""
  C = mlsub('constraints')
  d = data.d
  s = case['seed'] % 100000
  X = data.X
  nconst = case['n_constraints'] if (case['n_constraints'] is not None or case['unknown']) else None
  if case['unknown'] and nconst is None:
    nconst = 20
  ncls = len(np.unique(y))
  n_eff = nconst if nconst is not None else 20 * ncls ** 2
  arr = gen.spd_from_seed(d, case['aseed'])
  if name == 'ITML_Supervised':
    opt = arr if case['opt'] == 'array' else case['opt']
    ps = dict(prior=opt, max_iter=10, n_constraints=nconst, random_state=s)

    def base():
      pn = C.Constraints(y).positive_negative_pairs(n_eff, random_state=s)
      P, yy = own_wrap_pairs(X, pn)
      return E.build('ITML', dict(prior=opt, max_iter=10, random_state=s)), (P, yy)
    return ps, base
  if name == 'MMC_Supervised':
    opt = arr if case['opt'] == 'array' else case['opt']
    ps = dict(init=opt, max_iter=6, max_proj=500, n_constraints=nconst, random_state=s)

    def base():
      pn = C.Constraints(y).positive_negative_pairs(n_eff, random_state=s)
      P, yy = own_wrap_pairs(X, pn)
      return E.build('MMC', dict(init=opt, max_iter=6, max_proj=500, tol=1e-6, random_state=s)), (P, yy)
    return ps, base
  if name == 'SDML_Supervised':
    opt = arr if case['opt'] == 'array' else case['opt']
    ps = dict(prior=opt, sparsity_param=0.02, n_constraints=nconst, random_state=s, balance_param=None)

    def base():
      pn = C.Constraints(y).positive_negative_pairs(n_eff, random_state=s)
      P, yy = own_wrap_pairs(X, pn)
      return E.build('SDML', dict(prior=opt, sparsity_param=0.02, balance_param=ps['balance_param'], random_state=s)), (P, yy)
    return ps, base
  if name == 'LSML_Supervised':
    opt = arr if case['opt'] == 'array' else case['opt']
    pn0 = C.Constraints(y).positive_negative_pairs(n_eff, same_length=True, random_state=s)
    m = len(pn0[0])
    wts = (np.random.RandomState(case['aseed']).rand(m) + 0.1) if case['weights'] else None
    ps = dict(prior=opt, max_iter=8, n_constraints=nconst, random_state=s, weights=wts)

    def base():
      pn = C.Constraints(y).positive_negative_pairs(n_eff, same_length=True, random_state=s)
      Q = X[np.column_stack(pn)]
      est = E.build('LSML', dict(prior=opt, max_iter=8, random_state=s))
      return est, (Q,) if wts is None else (Q, wts.copy())
    return ps, base
  if name == 'RCA_Supervised':
    ps = dict(n_components=case['opt'], n_chunks=case['n_chunks'], chunk_size=case['chunk_size'], random_state=s)

    def base():
      ch = C.Constraints(y).chunks(n_chunks=case['n_chunks'], chunk_size=case['chunk_size'], random_state=s)
      return E.build('RCA', dict(n_components=case['opt'])), (X, ch)
    return ps, base
  basis = case['opt']
  barr = gen.basis_from_seed(case['n_basis'], d, case['aseed'])
  ps = dict(k_genuine=case['kg'], k_impostor=case['ki'], basis=barr if basis == 'array' else basis, n_basis=None if basis == 'array' else case['n_basis'],
            max_iter=40, output_iter=10, batch_size=3, random_state=s)

  def base(observed_basis=None):
    T = X[C.Constraints(y).generate_knntriplets(X, case['kg'], case['ki'])]
    b = barr if basis == 'array' else (observed_basis if basis == 'lda' else 'triplet_diffs')
    pb = dict(basis=b, max_iter=40, output_iter=10, batch_size=3, random_state=s)
    if isinstance(b, str):
      pb['n_basis'] = case['n_basis']
    return E.build('SCML', pb), (T,)
  return ps, base


def check_c08(case, stats):
  name = case['est']
  data = gen.Data(case['desc'])
  X, d = data.X, data.d
  y = labels_with_unknown(data.y, case)
  if name == 'SCML_Supervised':
    known = y[y >= 0]
    if min(np.bincount(known - known.min())[np.bincount(known - known.min()) > 0]) < 2:
      raise Discard('a class with fewer than 2 labelled members')
  with recorded_warnings():
    ps, base = build(name, case, data, y)
    if name == 'SDML_Supervised':
      tmp = dict(ps)
      tmp.pop('balance_param')
      ystub = gen.Data(case['desc'])
      ystub.X, ystub.y = X, y
      n_eff = tmp['n_constraints'] or 20 * len(np.unique(y)) ** 2
      bmax = E.sdml_max_balance(name, ystub, dict(tmp, n_constraints=n_eff))
      ps['balance_param'] = min(0.4 * bmax, 1.0)
    sup = E.build(name, ps)
    exp = (RuntimeError,) if name == 'SDML_Supervised' else (ValueError,) if name == 'RCA_Supervised' else ()
    obs_basis = {}
    if name == 'SCML_Supervised' and case['opt'] == 'lda':
      with observe.record_method('scml', '_BaseSCML', '_components_from_basis_weights') as calls:
        r = call('C08/fit-supervised/' + name, sup.fit, X, y, expect=exp + (ValueError,))
      if calls:
        obs_basis['b'] = np.asarray(calls[0][0][0]).copy()
    else:
      r = E.fit_call('C08/fit-supervised', name, sup, (X, y), case['desc'], ps, expect=exp)
    if isinstance(r, Exception):
      # specified outcomes: SDML solver failure, infeasible chunks, lda basis size limits - the base learner must agree
      if name == 'RCA_Supervised':
        C = mlsub('constraints')
        r2 = call('C08/chunks', lambda: C.Constraints(y).chunks(n_chunks=case['n_chunks'], chunk_size=case['chunk_size'],
                                                                random_state=case['seed'] % 100000), expect=(ValueError,))
        if not isinstance(r2, ValueError):
          raise Violation('C08/supervised-rejects-feasible-chunks', 'RCA_Supervised raised %r but the helper builds the chunks' % (r,))
      raise Discard('specified fit failure (%s)' % type(r).__name__)
    try:
      if name == 'SCML_Supervised':
        best, args = base(obs_basis.get('b'))
      else:
        best, args = base()
    except ValueError as e:
      raise Violation('C08/helper-rejects-what-supervised-accepted/' + name,
                      'the supervised fit succeeded but the Constraints helper with the same hyper-parameters raises: %s' % e)
    r = E.fit_call('C08/fit-base', name.replace('_Supervised', ''), best, args, case['desc'], ps,
                   expect=(RuntimeError,) if 'SDML' in name else ())
    if isinstance(r, Exception):
      raise Violation('C08/base-fails-where-supervised-succeeds/' + name, repr(r))
  MS, MB = sup.get_mahalanobis_matrix(), best.get_mahalanobis_matrix()
  sc = max(np.abs(MS).max(), 1e-300)
  tag = '%s/%s' % (name, 'with-unknown' if case['unknown'] else 'all-known')
  if MS.shape != MB.shape or np.abs(MS - MB).max() > 1e-10 * sc:
    raise Violation('C08/differs-from-base/' + tag, 'max|M_sup - M_base| / max|M| = %g (option %r)'
                    % (np.abs(MS - MB).max() / sc if MS.shape == MB.shape else float('nan'), case['opt']))
  nontrivial = bool(np.abs(MS).max() > 0 and np.abs(MS - np.eye(d)).max() > 1e-9)
  classes = [name, 'unknown-labels' if case['unknown'] else 'all-known']
  # metamorphic: unlabeled points do not matter
  unl = np.flatnonzero(y < 0)
  if len(unl) and not (name == 'SCML_Supervised' and case['opt'] == 'lda'):
    rs = np.random.RandomState(case['mseed'])
    diam = float(np.abs(X).max()) * 4
    X2 = X.copy()
    X2[unl] = rs.randn(len(unl), d) * diam * 3 + diam * 5
    sup2 = E.build(name, ps)
    with recorded_warnings():
      r = call('C08/fit-supervised-moved/' + name, sup2.fit, X2, y, expect=(RuntimeError,) if 'SDML' in name else ())
    if isinstance(r, Exception):
      raise Violation('C08/unlabeled-points-matter/' + name, 'moving unlabeled points made fit fail: %r' % (r,))
    M2 = sup2.get_mahalanobis_matrix()
    if M2.shape != MS.shape or np.abs(M2 - MS).max() > 1e-9 * sc:
      raise Violation('C08/unlabeled-points-matter/' + name, 'moving the %d unlabeled points changes M by %g relative (option %r)'
                      % (len(unl), np.abs(M2 - MS).max() / sc if M2.shape == MS.shape else float('nan'), case['opt']))
    classes.append('metamorphic')
  stats.case(case, nontrivial, classes)


CHECKS = {'check_c08': check_c08}
_B = {'quick': 60, 'thorough': 1500}


def shards(tier):
  return [dict(name='%s-%d' % (n, i), est=n) for n in NAMES for i in range(2)]


def run_shard(shard, tier, seed, stats, known_sigs):
  return drive(check_c08, case_strategy(shard['est']), _B[tier], seed, stats, known_sigs, name='check_c08')
