"""C13 - SDML minimises the documented sparse LogDet objective."""
import numpy as np
from hypothesis import strategies as st

from ..common import Violation, Discard, call, recorded_warnings
from ..hyp import drive
from .. import estimators as E, gen, oracles as O

RULE = ('SDML and SDML_Supervised on generated labelled pairs (d in 2..6) x prior in {identity, covariance, random, SPD array} '
        'x sparsity_param = 10^[-3,0] x balance_param drawn (a) as a fraction in (0,0.5] of the largest value keeping '
        'S = M0^-1 + balance * sum y v v^T positive definite (in-domain) or (b) 1.2-10 x beyond it (failure clause).  Oracle: '
        'the harness forms S itself, solves the problem with its own ADMM solver, compares objective values and checks the '
        'sub-gradient (KKT) conditions.  Non-trivial = loss matrix indefinite and the reference optimum has both zero and '
        'non-zero off-diagonal entries (sparsity active); distinct by canonical case.')
ASSUMPTIONS = ['objective gap tolerance 5e-4 max(1,|g*|) (scikit-learn stops on a 1e-4 duality gap); KKT slack 2e-2 relative to max(|S|, sparsity) (7e-3 was observed on the unchanged tree: scikit-learn stops on the duality gap, not on the KKT residual)',
               'cases where scikit-learn warns about non-convergence, or where the reference solver did not converge, are inconclusive',
               'beyond the PD margin the only admissible outcomes are RuntimeError or a finite PSD matrix']
NAMES = ['SDML', 'SDML_Supervised']


@st.composite
def case_strategy(draw, name):
  desc = draw(gen.dataset_desc(dmax=6, scales=False))
  prior = draw(st.sampled_from(['identity', 'covariance', 'random', 'array']))
  if draw(st.integers(0, 2)) == 0:
    desc['logscale'] = draw(st.sampled_from([-5, -5, -4, -3, 2, 3]))      # the objective is scale-covariant: tiny / large features
    prior = draw(st.sampled_from(['covariance', 'covariance', 'identity', 'array']))   # 'covariance' follows the data scale
  return dict(est=name, desc=desc, prior=prior,
              aseed=draw(st.integers(0, 999)), seed=draw(st.integers(0, 999)),
              logsparsity=draw(st.floats(-3, 0, allow_nan=False)),
              beyond=draw(st.integers(0, 4)) == 0, frac=draw(st.floats(0.02, 0.5, allow_nan=False)),
              over=draw(st.floats(1.2, 10, allow_nan=False)), coarse=draw(st.integers(0, 3)) == 0)


def check_c13(case, stats):
  name = case['est']
  data = gen.Data(case['desc'])
  d = data.d
  if case.get('coarse'):
    # points on a coarse grid: distinct points share single coordinates, pairs share points
    step = float(np.abs(data.X).max()) / 4.0
    data.X = np.round(data.X / step) * step
    data._c = {}
  prior = gen.spd_from_seed(d, case['aseed']) if case['prior'] == 'array' else case['prior']
  if isinstance(prior, np.ndarray) and case['aseed'] % 3 == 0:
    prior = np.asfortranarray(prior)        # memory layout is not part of the matrix
  lam = 10.0 ** case['logsparsity']
  params = dict(prior=prior, sparsity_param=lam, random_state=case['seed'])
  if name == 'SDML_Supervised':
    params['n_constraints'] = 20
  bmax = E.sdml_max_balance(name, data, params)
  P, yy = E.sdml_pairs(name, data, params)
  Pinv0 = E.prior_inverse(prior, d, P, case['seed'])
  wp = np.linalg.eigvalsh((Pinv0 + Pinv0.T) / 2)
  if wp.min() <= 1e-10 * wp.max():
    raise Discard('covariance of the distinct pair points is singular')
  diff = P[:, 0] - P[:, 1]
  Lm = (diff.T * yy).dot(diff)
  indefinite = np.linalg.eigvalsh(Lm).min() < 0
  if case['beyond']:
    if not np.isfinite(bmax):
      raise Discard('no finite PD margin')
    bal = case['over'] * bmax
  else:
    bal = min(case['frac'] * bmax, 2.0)
  params['balance_param'] = bal
  S = Pinv0 + bal * Lm
  S = (S + S.T) / 2
  est = E.build(name, params)
  fargs = (P, yy) if name == 'SDML' else (data.X, data.y)
  with recorded_warnings() as w:
    r = call('C13/fit/' + name, est.fit, *fargs, expect=(RuntimeError,))
  sk_warn = any('onverge' in str(x.message) and 'graphical' not in str(x.message).lower()[:0] and
                x.category.__name__ == 'ConvergenceWarning' and 'not positive semi-definite' not in str(x.message)
                for x in w)
  tag = '%s/%s' % (name, case['prior'])
  if isinstance(r, RuntimeError):
    if not case['beyond']:
      stats.inconclusive['RuntimeError inside the PD margin (specified outcome)'] += 1
    stats.case(case, case['beyond'], [name, 'beyond-margin' if case['beyond'] else 'in-domain', 'RuntimeError'])
    return
  M = est.get_mahalanobis_matrix()
  if not np.isfinite(M).all():
    raise Violation('C13/non-finite/' + tag, 'fit returned a matrix with NaN/inf')
  ev = np.linalg.eigvalsh((M + M.T) / 2)
  if np.abs(M - M.T).max() > 1e-10 * np.abs(M).max():
    raise Violation('C13/symmetric/' + tag, '')
  if case['beyond']:
    if ev.min() < -1e-10 * ev.max():
      raise Violation('C13/not-psd-returned/' + tag, 'lambda_min = %g' % ev.min())
    stats.case(case, True, [name, 'beyond-margin', 'returned'])
    return
  if ev.min() <= 0:
    raise Violation('C13/positive-definite/' + tag, 'lambda_min = %g' % ev.min())
  if sk_warn:
    stats.inconclusive['scikit-learn reported non-convergence'] += 1
    return
  Mref, conv = O.glasso_admm(S, lam)
  if not conv:
    stats.inconclusive['reference ADMM did not converge'] += 1
    return
  g, gref = O.glasso_objective(M, S, lam), O.glasso_objective(Mref, S, lam)
  if gref > g + 1e-6 * max(1.0, abs(g)):
    stats.inconclusive['reference worse than the library solution'] += 1
    return
  if g > gref + 5e-4 * max(1.0, abs(gref)):
    raise Violation('C13/objective-gap/' + tag, 'g(M) = %r, independently computed optimum %r (sparsity %g, balance %g)' % (g, gref, lam, bal))
  # sub-gradient certificate - only meaningful when the library's solution is converged tightly (scikit-learn stops on
  # a 1e-4 duality gap; with a looser solution KKT residuals of a few percent were observed on the unchanged tree)
  if g > gref + 1e-6 * max(1.0, abs(gref)):
    stats.case(case, bool(indefinite), [name, 'in-domain', 'prior:' + case['prior'], 'kkt-skipped (objective gap > 1e-6)'])
    return
  W = np.linalg.inv(M)
  sc = max(np.abs(S).max(), lam)
  if np.abs(np.diag(W) - np.diag(S)).max() > 2e-2 * sc:
    raise Violation('C13/kkt-diagonal/' + tag, 'max |(M^-1)_ii - S_ii| = %g (scale %g)' % (np.abs(np.diag(W) - np.diag(S)).max(), sc))
  R = W - S
  off = ~np.eye(d, dtype=bool)
  if (np.abs(R[off]) > lam + 2e-2 * sc).any():
    raise Violation('C13/kkt-offdiagonal-bound/' + tag, 'max |(M^-1 - S)_ij| = %g > sparsity %g' % (np.abs(R[off]).max(), lam))
  nz = off & (np.abs(M) > 1e-6 * np.abs(M).max())
  if nz.any() and np.abs(R[nz] - lam * np.sign(M[nz])).max() > 2e-2 * sc + 0.05 * lam:
    raise Violation('C13/kkt-offdiagonal-sign/' + tag, 'non-zero entries: max |(M^-1 - S)_ij - sparsity*sign(M_ij)| = %g'
                    % np.abs(R[nz] - lam * np.sign(M[nz])).max())
  zeros = int((np.abs(Mref[off]) == 0).sum())
  nonz = int((np.abs(Mref[off]) > 0).sum())
  stats.case(case, bool(indefinite and zeros and nonz), [name, 'in-domain', 'prior:' + case['prior'],
                                                         'sparsity-active' if zeros else 'dense-optimum'])


CHECKS = {'check_c13': check_c13}
_B = {'quick': 40, 'thorough': 2000}


def shards(tier):
  return [dict(name='%s-%d' % (n, i), est=n) for n in NAMES for i in range(6)]


def run_shard(shard, tier, seed, stats, known_sigs):
  return drive(check_c13, case_strategy(shard['est']), _B[tier], seed, stats, known_sigs, name='check_c13')
