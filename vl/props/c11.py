"""C11 - ITML returns the optimum of its LogDet program (KKT certificate)."""
import math

import numpy as np
from hypothesis import strategies as st

from ..common import Violation, Discard, call, mlsub
from ..hyp import drive
from .. import estimators as E, gen, observe

RULE = ('ITML and ITML_Supervised on generated pair sets (both labels, non-collapsed, 4-60 pairs) x prior in {identity, '
        'covariance, random, SPD array} x gamma = 10^[-2,2] x bounds {default percentiles, explicit (u,l) incl. u > l, '
        'bounds already satisfied by the prior} x max_iter in {1,2,5,5000} x tol in {1e-3,1e-10}.  The dual variables and '
        'slack bounds are read from the _fit frame at return (sys.setprofile) and the KKT certificate is evaluated by the '
        'harness against its own construction of the prior.  Non-trivial = at least one lambda_i > 0 and one lambda_i == 0 '
        'at return, or the prior-feasible case; distinct by canonical case.')
ASSUMPTIONS = ['stationarity residual ||M (M0^-1 + sum y_i lambda_i v_i v_i^T) - I|| <= 1e-3 (+ 1e4 eps kappa m + 100 eps kappa^2 m) asserted when cond(M) < 1e5 (1.3e-3 was observed at cond 4e6 on the unchanged tree)',
               'convergence clauses (feasibility, complementary slackness at 1e-4) asserted only when n_iter_ < max_iter - 1 with tol = 1e-10',
               'known finding KF1: loss of positive definiteness / NonPSDError when some Bregman projection must move a distance by a factor kappa > 1e6 (large-scale data, or default bounds whose 5th percentile is 0 -> 1e-9)']


@st.composite
def case_strategy(draw, name):
  big = draw(st.integers(0, 9)) == 0
  desc = draw(gen.dataset_desc(dmax=6, scales=False))
  if big:
    desc['logscale'] = draw(st.sampled_from([1, 2]))
  extreme = draw(st.integers(0, 5)) == 0
  return dict(est=name, desc=desc, prior=draw(st.sampled_from(['identity', 'covariance', 'random', 'array'])),
              aseed=draw(st.integers(0, 999)), seed=draw(st.integers(0, 10 ** 6)),
              loggamma=draw(st.floats(-2, 2, allow_nan=False)),
              bounds=draw(st.sampled_from(['default', 'default', 'explicit', 'swapped', 'feasible'])),
              bfrac=[draw(st.floats(0.05, 0.6, allow_nan=False)), draw(st.floats(0.4, 1.5, allow_nan=False))],
              max_iter=draw(st.sampled_from([1, 2, 5, 5000, 5000])), tol=draw(st.sampled_from([1e-3, 1e-10, 1e-10])),
              n_pairs=draw(st.integers(4, 60)), coarse=draw(st.integers(0, 3)) == 0, extreme=extreme, xscale=draw(st.sampled_from([-5, -4, -3, 3, 4, 5])))


def _fix(case):
  if case.get('extreme') and case['bounds'] != 'default':
    # features of magnitude 1e-5 .. 1e5 with bounds given relative to the prior's distances: the dual variables
    # then have magnitude 1e-10 .. 1e10 although the problem is as well conditioned as at unit scale
    case['desc']['logscale'] = case['xscale']
    if case['prior'] in ('random', 'array'):
      case['prior'] = 'identity'
  # default bounds are percentiles over ALL pairwise distances including the zero diagonal: with <= 20 distinct
  # points the 5th percentile is 0 (stored as 1e-9), an extreme bound that makes the certificate inconclusive
  if case['bounds'] == 'default' and case['n_pairs'] < 16:
    case['n_pairs'] += 16
  return case


def check_c11(case, stats):
  name = case['est']
  data = gen.Data(case['desc'])
  d = data.d
  if case.get('coarse'):
    # points on a coarse grid: many ties in single coordinates (not collapsed pairs), points shared by pairs
    step = float(np.abs(data.X).max()) / 4.0
    data.X = np.round(data.X / step) * step
    data._c = {}
  prior = gen.spd_from_seed(d, case['aseed']) if case['prior'] == 'array' else case['prior']
  if isinstance(prior, np.ndarray) and case['aseed'] % 3 == 0:
    prior = np.asfortranarray(prior)        # memory layout is not part of the matrix
  gamma = 10.0 ** case['loggamma']
  params = dict(prior=prior, gamma=gamma, max_iter=case['max_iter'], tol=case['tol'], random_state=case['seed'] % 1000)
  if name == 'ITML':
    rs = np.random.RandomState(case['seed'])
    pidx, yy = gen.make_pairs(data.X, data.y, case['n_pairs'], rs)
    if len(yy) < 2 or len(set(yy.tolist())) < 2:
      raise Discard('could not build pairs of both labels')
    P = data.X[pidx]
    fargs = (P, yy)
  else:
    params['n_constraints'] = max(2, case['n_pairs'] // 2)
    C = mlsub('constraints')
    pn = C.Constraints(data.y).positive_negative_pairs(params['n_constraints'], random_state=params['random_state'])
    P, yy = C.wrap_pairs(data.X, pn)
    fargs = (data.X, data.y)
  Pinv0 = E.prior_inverse(prior, d, P, params['random_state'])
  wp = np.linalg.eigvalsh((Pinv0 + Pinv0.T) / 2)
  if wp.min() <= 1e-10 * wp.max():
    raise Discard('covariance of the distinct pair points is singular (strictly PD prior required)')
  M0 = np.linalg.inv(Pinv0)
  pos, neg = P[yy == 1], P[yy == -1]
  V = np.vstack([pos[:, 0] - pos[:, 1], neg[:, 0] - neg[:, 1]])
  delta = np.r_[np.ones(len(pos)), -np.ones(len(neg))]
  p0 = np.einsum('ij,jk,ik->i', V, M0, V)
  kw = {}
  bmode = case['bounds']
  if bmode != 'default':
    lo, hi = float(p0.min()), float(p0.max())
    if bmode == 'explicit':
      b = [lo + case['bfrac'][0] * (hi - lo), lo + case['bfrac'][1] * (hi - lo)]
    elif bmode == 'swapped':
      b = [lo + case['bfrac'][1] * (hi - lo), lo + case['bfrac'][0] * (hi - lo)]
    else:
      b = [hi * 1.5 + 1e-3, lo * 0.5]
    kw['bounds'] = np.array(b, dtype=float)
  est = E.build(name, params)
  # bounds the fit will use (documented default: 5th / 95th percentile of all pairwise distances between the
  # distinct points, zeros replaced by 1e-9) and the largest factor by which a projection must move a distance
  if 'bounds' in kw:
    b_exp = np.where(kw['bounds'] == 0, 1e-9, kw['bounds'])
  else:
    U = np.unique(P.reshape(-1, d), axis=0)
    Dm = np.sqrt(((U[:, None, :] - U[None, :, :]) ** 2).sum(-1))
    b_exp = np.percentile(Dm, (5, 95))
    b_exp = np.where(b_exp == 0, 1e-9, b_exp)
  xi0e = np.where(delta > 0, b_exp[0], b_exp[1])
  kappa = float(max(1.0, np.where(delta > 0, p0 / xi0e, xi0e / np.maximum(p0, 1e-300)).max()))
  ill = kappa > 1e6
  with observe.frame_locals_at_return('itml', '_BaseITML', '_fit', ['_lambda', 'pos_bhat', 'neg_bhat']) as loc:
    try:
      r = call('C11/fit/' + name, est.fit, *fargs, **kw)
    except Violation as v:
      if ill and (v.sig.endswith('raises-NonPSDError') or
                  (v.sig.endswith('raises-ValueError') and 'should be symmetric' in v.msg)):
        # the collapsed matrix is indefinite, or has become NaN (then the symmetry test fails first): same root cause
        raise Violation('C11/fit/%s/raises-NonPSDError/kappa>1e6' % name, v.msg)
      raise
  if '_lambda' not in loc:
    raise Violation('C11/no-dual-variables', '_fit frame did not expose _lambda')
  lam = np.asarray(loc['_lambda'], dtype=float)
  xi = np.r_[np.asarray(loc['pos_bhat'], dtype=float), np.asarray(loc['neg_bhat'], dtype=float)]
  if lam.shape != delta.shape or xi.shape != delta.shape:
    raise Violation('C11/dual-shape', 'lambda %s xi %s for %d constraints' % (lam.shape, xi.shape, len(delta)))
  M = est.get_mahalanobis_matrix()
  tag = '%s/%s' % (name, case['prior'])
  if np.abs(M - M.T).max() > 1e-12 * np.abs(M).max():
    raise Violation('C11/symmetric/' + tag, 'asymmetry %g' % np.abs(M - M.T).max())
  w = np.linalg.eigvalsh(M)
  if w.min() <= 0:
    raise Violation('C11/positive-definite/%s%s' % ('kappa>1e6/' if ill else '', tag if not ill else name),
                    'lambda_min(M) = %g (kappa %g)' % (w.min(), kappa))
  if (lam < 0).any():
    raise Violation('C11/dual-nonnegative/' + tag, 'min lambda = %g' % lam.min())
  bounds_ = np.asarray(est.bounds_, dtype=float)
  xi0 = np.where(delta > 0, bounds_[0], bounds_[1])
  if not np.allclose(bounds_, b_exp, rtol=1e-6, atol=0):
    raise Violation('C11/bounds/' + tag, 'bounds_ %s vs documented %s' % (bounds_, b_exp))
  # slack stationarity 1/xi = 1/xi0 - y lambda / gamma
  lhs = 1.0 / xi
  rhs = 1.0 / xi0 - delta * lam / gamma
  if np.abs(lhs - rhs).max() > 1e-8 * np.abs(1.0 / xi0).max() + 1e-9 * np.abs(lhs).max():
    raise Violation('C11/slack-stationarity/' + tag, 'max |1/xi - (1/xi0 - y lambda/gamma)| = %g' % np.abs(lhs - rhs).max())
  cond = w.max() / w.min()
  # a Bregman projection that moves a distance by the factor kappa loses ~eps*kappa of relative accuracy
  # (1 + beta*p is formed by cancellation): how far the prior is from the bounds limits what can be certified
  if ill:
    stats.inconclusive['prior violates a bound by a factor > 1e6 (stationarity not certifiable in double precision)'] += 1
  elif cond < 1e5:
    S = Pinv0 + (V.T * (delta * lam)).dot(V)
    resid = np.abs(M.dot(S) - np.eye(d)).max()
    # the first sweeps contract M by up to kappa in one direction: the transient condition number reaches
    # ~kappa^2 (4.7e9 observed at kappa 3.5e5) and the rounding made there stays in the final relation
    if resid > 1e-3 + 1e4 * 2.3e-16 * kappa * len(lam) + 100 * 2.3e-16 * kappa ** 2 * len(lam):
      raise Violation('C11/stationarity/' + tag, 'max|M (M0^-1 + sum y lambda v v^T) - I| = %g (cond %g, gamma %g)' % (resid, cond, gamma))
  else:
    stats.inconclusive['cond(M) >= 1e5 (stationarity residual not certifiable)'] += 1
  p = np.einsum('ij,jk,ik->i', V, M, V)
  # asserted only when every bound holds with a relative margin (a constraint tight to 1e-11 is decided by rounding)
  feasible0 = bool(((delta * (p0 - xi0)) <= -1e-9 * xi0).all())
  if feasible0:
    if est.n_iter_ != 0 or np.abs(M - M0).max() > 1e-9 * np.abs(M0).max():
      raise Violation('C11/prior-feasible-not-returned/' + tag, 'all bounds hold under the prior but n_iter_=%d, max|M-M0|=%g' % (est.n_iter_, np.abs(M - M0).max()))
  converged = est.n_iter_ < case['max_iter'] - 1 and case['tol'] == 1e-10
  if converged and cond < 1e8 and kappa <= 1e6:
    viol = delta * (p - xi)
    if (viol > 1e-4 * xi).any():
      raise Violation('C11/converged-infeasible/' + tag, 'max y (v^T M v - xi)/xi = %g' % (viol / xi).max())
    cs = lam * np.abs(p - xi)
    if (cs > 1e-4 * (lam * xi + 1)).any():
      raise Violation('C11/complementary-slackness/' + tag, 'max lambda |v^T M v - xi| = %g' % cs.max())
  active, inactive = bool((lam > 0).any()), bool((lam == 0).any())
  stats.case(case, (active and inactive) or feasible0,
             [name, 'prior:' + case['prior'], 'bounds:' + bmode, 'converged' if converged else 'budget-hit',
              'prior-feasible' if feasible0 else 'prior-infeasible'])


CHECKS = {'check_c11': check_c11}
_B = {'quick': 50, 'thorough': 1400}


def shards(tier):
  return [dict(name='%s-%d' % (n, i), est=n) for n in ('ITML', 'ITML_Supervised') for i in range(6)]


def run_shard(shard, tier, seed, stats, known_sigs):
  return drive(check_c11, case_strategy(shard['est']).map(_fix), _B[tier], seed, stats, known_sigs, name='check_c11')
