"""C17 - fitting is deterministic, side-effect free and history independent (stateful, model based)."""
import copy
import pickle

import numpy as np
import hypothesis
from hypothesis import strategies as st
from hypothesis.stateful import RuleBasedStateMachine, rule, precondition, initialize, run_state_machine_as_test

from ..common import Violation, Discard, call, bits_equal, jsonable, digest
from ..hyp import make_settings
from .. import estimators as E, gen

RULE = ('one Hypothesis RuleBasedStateMachine per estimator (17 machines).  State: the estimator, 4 datasets of different '
        'sizes and dimensionalities (d = 2,3,4,5) with tuples / labels / chunks, probe pairs per dimensionality, objects handed '
        'out.  Rules: fit(dataset_i [, bounds | weights | calibration_params]), set_params (valid numeric values, integer '
        'random_state, array init/prior/basis sized for a dataset), set_threshold, calibrate_threshold, transform, '
        'pair_distance, predict, score, get_metric, get_mahalanobis_matrix (copy kept, returned array scribbled over), clone, '
        'pickle round trip.  Model-based invariants after every step: a fresh estimator built from get_params() and fitted once '
        'on the arguments of the most recent fit agrees (M, distances on probe pairs at rtol 1e-7, threshold_, n_features_in_, '
        'bounds_); every array ever passed in keeps its bytes; get_params() returns the identical objects; query methods leave '
        'vars(est) unchanged; every handed-out closure / matrix keeps its values bitwise.  Non-trivial = the history has >= 2 '
        'fits on different dimensionalities, or a fit with a caller-supplied mutable argument, or a hand-out followed by a '
        'refit; distinct by the canonical history.')
ASSUMPTIONS = ['fits on identical inputs compared at rtol 1e-7 (bitwise agreement counted separately); LFDA up to eigenvector sign',
               'fit is only issued when array-valued parameters match the dataset dimensionality (a mismatch is a documented ValueError)',
               'SDML RuntimeError and the ITML known finding KF1 end the history as discards']

DIMS = [2, 3, 4, 5]
TRACE = {'ops': None}


def dataset(i, dseed):
  d = DIMS[i]
  sizes = [[13, 13], [9, 9, 9], [14, 13], [10, 11, 10]][i]
  return gen.Data(dict(d=d, sizes=sizes, seed=dseed * 4 + i, logscale=0, cond=[1, 3, 10, 1][i], sep=[1.0, 3.0, 1.0, 3.0][i],
                       labels=['range', 'shifted', 'scrambled', 'range'][i], grid=False))


NUMERIC = {
    'LMNN': dict(n_neighbors=[1, 2], regularization=[0.3, 0.7], max_iter=[5, 12], init=['auto', 'pca', 'identity', 'random', 'lda'], n_components=[None, 2, 1]),
    'NCA': dict(max_iter=[3, 8], init=['auto', 'pca', 'identity', 'random', 'lda'], n_components=[None, 2, 1]),
    'MLKR': dict(max_iter=[3, 8], init=['auto', 'pca', 'identity', 'random'], n_components=[None, 2, 1]),
    'LFDA': dict(k=[None, 1, 2], embedding_type=['weighted', 'plain', 'orthonormalized']),
    'RCA': dict(n_components=[None, 2]), 'RCA_Supervised': dict(n_components=[None, 2]), 'Covariance': dict(),
    'ITML': dict(gamma=[0.5, 2.0], max_iter=[3, 15]), 'ITML_Supervised': dict(gamma=[0.5, 2.0], n_constraints=[12, 30]),
    'MMC': dict(max_iter=[3, 8], diagonal=[False, True]), 'MMC_Supervised': dict(max_iter=[3, 8], n_constraints=[12, 30]),
    'SDML': dict(sparsity_param=[0.01, 0.1]), 'SDML_Supervised': dict(sparsity_param=[0.01, 0.1], n_constraints=[12, 30]),
    'LSML': dict(max_iter=[3, 10]), 'LSML_Supervised': dict(max_iter=[3, 10], n_constraints=[12, 30]),
    'SCML': dict(beta=[1e-5, 1e-3], gamma=[5e-3, 0.1], max_iter=[40, 60]),
    'SCML_Supervised': dict(beta=[1e-5, 1e-3], k_genuine=[1, 2], max_iter=[40, 60]),
}
ARRAY_PARAM = {'LMNN': 'init', 'NCA': 'init', 'MLKR': 'init', 'ITML': 'prior', 'ITML_Supervised': 'prior',
               'LSML': 'prior', 'LSML_Supervised': 'prior', 'SDML': 'prior', 'SDML_Supervised': 'prior',
               'MMC': 'init', 'MMC_Supervised': 'init', 'SCML': 'basis', 'SCML_Supervised': 'basis'}


def snap(obj):
  """bytes-level snapshot of (nested) arrays / plain values"""
  if isinstance(obj, np.ndarray):
    return ('nd', obj.dtype.str, obj.shape, obj.tobytes())
  if isinstance(obj, (list, tuple)):
    return tuple(snap(o) for o in obj)
  if isinstance(obj, dict):
    return tuple(sorted((k, snap(v)) for k, v in obj.items()))
  if isinstance(obj, (int, float, str, bool, type(None), np.generic)):
    return ('v', repr(obj))
  return ('id', id(obj))


class Model:
  """Plain-Python driver: executes operations on the real estimator and checks the invariants.  Used both by the
  Hypothesis state machine and by replay."""

  def __init__(self, name, dseed, stats=None):
    self.name = name
    self.dseed = dseed
    self.stats = stats
    self.data = [dataset(i, dseed) for i in range(4)]
    self.kind = E.KIND[name]
    self.ops = []
    self.params = E.materialize(name, {}, self.data[0], 0)
    if name in ('SDML', 'SDML_Supervised'):
      self.params['balance_param'] = 1e-3
    if name == 'RCA_Supervised':
      self.params['n_chunks'] = 12
    self.est = E.build(name, dict(self.params))
    self.fitted = False
    self.stale = False
    self.last_fit = None
    self.thr_ops = []
    self.handouts = []
    self.n_fit_dims = set()
    self.flags = set()
    rs = np.random.RandomState(dseed + 77)
    self.probes = {d: rs.randn(6, 2, d) for d in DIMS}
    self.inputs = []       # (description, object, snapshot) of everything ever passed in

  # ------------------------------------------------------------------ helpers
  def array_param_dim(self):
    p = ARRAY_PARAM.get(self.name)
    if p and isinstance(self.params.get(p), np.ndarray):
      return self.params[p].shape[1]
    return None

  def fit_args(self, i, extra):
    dt = self.data[i]
    args = list(E.fit_args(self.name, dt))
    if self.name == 'RCA' and i % 2 == 1:
      # a layout in which EVERY point belongs to a chunk (no -1): consecutive same-class points, chunks of 2-3
      ch = np.empty(dt.n, dtype=int)
      cid = 0
      for c in np.unique(dt.y):
        idx = np.flatnonzero(dt.y == c)
        for j in range(0, len(idx), 2):
          grp = idx[j:j + 2] if len(idx) - j != 3 else idx[j:j + 3]
          if len(grp) == 1:
            cid -= 1
          ch[grp] = cid
          cid += 1
          if len(grp) == 3:
            break
      args[1] = ch
    kw = {}
    if extra == 'bounds' and self.name in ('ITML', 'ITML_Supervised'):
      kw['bounds'] = np.array([0.0, 4.0]) if i % 2 == 0 else np.array([0.7, 3.0])
    if extra == 'weights' and self.name == 'LSML':
      kw['weights'] = np.arange(1.0, len(args[0]) + 1)
    if extra == 'calibration' and self.name in E.PAIRS:
      kw['calibration_params'] = dict(strategy='f_beta', beta=2.0)
    return args, kw

  def track(self, what, objs):
    for o in objs:
      self.inputs.append((what, o, snap(o)))

  def check_inputs_unmodified(self, after):
    for what, o, s in self.inputs:
      if snap(o) != s:
        raise Violation('C17/argument-modified/%s/%s' % (self.name, what), 'after %s: %s changed from its value at call time' % (after, what))

  def state_snapshot(self):
    return {k: snap(v) for k, v in vars(self.est).items()}

  def check_handouts(self, after):
    for kind, obj, probe, val in self.handouts:
      if kind == 'metric':
        now = np.array([obj(a, b) for a, b in probe])
        if not bits_equal(now, val):
          raise Violation('C17/handed-out-metric-changed/' + self.name, 'after %s the function returned by get_metric gives %s, was %s' % (after, now, val))
      else:
        if not bits_equal(obj, val):
          raise Violation('C17/handed-out-matrix-changed/' + self.name, 'after %s' % after)

  def params_identity(self, after):
    gp = self.est.get_params()
    for k, v in self.params.items():
      if gp[k] is not v and not (isinstance(v, (int, float, str, bool, type(None))) and gp[k] == v and type(gp[k]) is type(v)):
        raise Violation('C17/hyper-parameter-changed/%s/%s' % (self.name, k), 'after %s: %r -> %r' % (after, v, gp[k]))

  def after(self, what):
    self.check_inputs_unmodified(what)
    self.check_handouts(what)
    self.params_identity(what)

  # ------------------------------------------------------------------ operations
  def op_fit(self, i, extra=None):
    pd = self.array_param_dim()
    if pd is not None and pd != DIMS[i]:
      return False
    args, kw = self.fit_args(i, extra)
    self.track('fit-data[%d]' % i, args)
    self.track('fit-kwargs', list(kw.values()))
    exp = (RuntimeError,) if 'SDML' in self.name else (ValueError,) if (self.name.startswith('MMC') and self.params.get('diagonal')) else ()
    if self.name in ('LMNN', 'NCA') and isinstance(self.params.get('init'), str) and self.params.get('init') == 'lda':
      exp = (ValueError,)        # lda needs n_components <= n_classes - 1 (documented)
    if pd is not None and self.stats is not None:
      self.stats.classes['fit-with-array-option'] += 1
      if self.name.startswith('SCML') and self.params['basis'].shape[0] < pd:
        self.stats.classes['fit-with-lowrank-basis'] += 1
    r = E.fit_call('C17/fit', self.name, self.est, args, self.data[i].desc, self.params, expect=exp, kw=kw)
    if isinstance(r, Exception):
      raise Discard('specified fit failure (%s)' % type(r).__name__)
    if r is not self.est:
      raise Violation('C17/fit-returns-self/' + self.name, '')
    self.fitted, self.stale = True, False
    self.last_fit = (i, extra)
    self.thr_ops = []
    self.n_fit_dims.add(DIMS[i])
    if kw:
      self.flags.add('mutable-arg')
    if self.handouts:
      self.flags.add('handout-then-refit')
    self.after('fit(%d,%s)' % (i, extra))
    self.check_against_fresh('fit(%d,%s)' % (i, extra))
    return True

  def check_against_fresh(self, what):
    i, extra = self.last_fit
    dt = self.data[i]
    fresh = E.build(self.name, dict(self.est.get_params()))
    args, kw = self.fit_args(i, extra)
    r = E.fit_call('C17/fresh-fit', self.name, fresh, args, dt.desc, self.params,
                   expect=(RuntimeError,) if 'SDML' in self.name else (), kw=kw)
    if isinstance(r, Exception):
      raise Violation('C17/fresh-fit-fails/' + self.name, 'history-fitted estimator succeeded, fresh one raised %r' % (r,))
    for op in self.thr_ops:
      self.apply_threshold_op(fresh, op)
    d = DIMS[i]
    hist = 'history-dependent' if len(self.n_fit_dims) > 1 or len([o for o in self.ops if o[0] == 'fit']) > 1 else 'first-fit'
    for attr in ('n_features_in_', 'threshold_'):
      if hasattr(self.est, attr) != hasattr(fresh, attr) or (hasattr(fresh, attr) and getattr(self.est, attr) != getattr(fresh, attr)):
        raise Violation('C17/%s/%s/%s' % (attr, hist, self.name), 'after %s: %r, a fresh estimator gives %r'
                        % (what, getattr(self.est, attr, None), getattr(fresh, attr, None)))
    if getattr(self.est, 'n_features_in_', d) != d:
      raise Violation('C17/n_features_in_/wrong/' + self.name, '%r for %d-dimensional points' % (self.est.n_features_in_, d))
    if hasattr(fresh, 'bounds_') and not np.allclose(self.est.bounds_, fresh.bounds_, rtol=1e-12):
      raise Violation('C17/bounds_/%s/%s' % (hist, self.name), '%r vs %r' % (self.est.bounds_, fresh.bounds_))
    M1, M2 = self.est.get_mahalanobis_matrix(), fresh.get_mahalanobis_matrix()
    if M1.shape != M2.shape or not np.allclose(M1, M2, rtol=1e-7, atol=1e-9 * np.abs(M2).max(initial=0.0)):
      raise Violation('C17/model/%s/%s' % (hist, self.name), 'after %s the learned matrix differs from a fresh fit by %g relative'
                      % (what, np.abs(M1 - M2).max() / max(np.abs(M2).max(), 1e-300) if M1.shape == M2.shape else float('nan')))
    P = self.probes[d]
    d1, d2 = self.est.pair_distance(P), fresh.pair_distance(P)
    if not np.allclose(d1, d2, rtol=1e-7, atol=1e-12):
      raise Violation('C17/distances/%s/%s' % (hist, self.name), '%s vs %s' % (d1, d2))
    if self.stats is not None and bits_equal(np.asarray(self.est.components_), np.asarray(fresh.components_)):
      self.stats.notes['bitwise identical to a fresh fit'] += 1

  def apply_threshold_op(self, est, op):
    if op[0] == 'set_threshold':
      est.set_threshold(op[1])
    else:
      i = op[1]
      dt = self.data[i]
      est.calibrate_threshold(dt.pairs, dt.ypairs, strategy=op[2], **({'min_rate': 0.5} if op[2].startswith('max') else {}))

  def op_threshold(self, t):
    if not (self.fitted and self.name in E.PAIRS):
      return False
    self.apply_threshold_op(self.est, ('set_threshold', t))
    self.thr_ops.append(('set_threshold', t))
    self.after('set_threshold')
    return True

  def op_calibrate(self, strategy):
    if not (self.fitted and self.name in E.PAIRS):
      return False
    i = self.last_fit[0]
    dt = self.data[i]
    self.track('calibrate-data', [dt.pairs, dt.ypairs])
    call('C17/calibrate_threshold/' + self.name, self.apply_threshold_op, self.est, ('calibrate', i, strategy))
    self.thr_ops.append(('calibrate', i, strategy))
    self.after('calibrate_threshold')
    if not self.stale:
      self.check_against_fresh('calibrate_threshold(%s)' % strategy)
    return True

  def op_set_params(self, key, idx):
    vals = NUMERIC[self.name].get(key)
    if not vals:
      return False
    v = vals[idx % len(vals)]
    self.params[key] = v
    call('C17/set_params/' + self.name, self.est.set_params, **{key: v})
    if key == 'n_components' and isinstance(self.params.get('init'), np.ndarray):
      # an array init fixes the output dimensionality: go back to a string option (a mismatch is a documented ValueError)
      self.params['init'] = 'auto'
      self.est.set_params(init='auto')
    self.stale = True
    self.after('set_params(%s)' % key)
    return True

  def op_set_seed(self, s):
    if self.name not in E.SEEDED:
      return False
    self.params['random_state'] = s
    self.est.set_params(random_state=s)
    self.stale = True
    self.after('set_params(random_state)')
    return True

  def op_set_array(self, i, aseed):
    p = ARRAY_PARAM.get(self.name)
    if not p:
      return False
    d = DIMS[i]
    if i < 0:
      arr = {'init': 'auto' if p == 'init' and self.name not in ('MMC', 'MMC_Supervised') else 'identity',
             'prior': 'identity', 'basis': 'triplet_diffs'}[p]
    elif p == 'basis':
      arr = gen.basis_from_seed(max(1, d - 1) if aseed % 4 == 1 else d + 3, d, aseed)
      self.params['n_basis'] = None
      self.est.set_params(n_basis=None)
    elif p == 'prior' or self.name in ('MMC', 'MMC_Supervised'):
      arr = gen.spd_from_seed(d, aseed)
    else:
      arr = gen.transform_from_seed(d, d, aseed)
      if 'n_components' in self.params:
        self.params['n_components'] = None
        self.est.set_params(n_components=None)
    self.params[p] = arr
    self.est.set_params(**{p: arr})
    if isinstance(arr, np.ndarray):
      self.track('parameter ' + p, [arr])
      self.flags.add('mutable-arg')
    self.stale = True
    self.after('set_params(%s=array)' % p)
    return True

  def op_query(self, meth):
    if not self.fitted:
      return False
    d = DIMS[self.last_fit[0]]
    before = self.state_snapshot()
    P = self.probes[d]
    if meth == 'transform':
      arg = (P[:, 0, :].copy(),)
    elif meth in ('pair_distance', 'pair_score'):
      arg = (P.copy(),)
    elif meth in ('predict', 'decision_function', 'score'):
      if self.name not in E.TUPLE_LEARNERS:
        return False
      ts = E.TUPLE_SIZE[self.kind]
      T = np.concatenate([P, P[::-1]], axis=1)[:, :ts, :].copy()
      arg = (T,) if not (meth == 'score' and ts == 2) else (T, np.array([1, -1, 1, -1, 1, -1]))
    else:
      return False
    self.track('query ' + meth, list(arg))
    o1 = call('C17/%s/%s' % (meth, self.name), getattr(self.est, meth), *arg)
    o2 = call('C17/%s/%s' % (meth, self.name), getattr(self.est, meth), *arg)
    if not bits_equal(np.asarray(o1), np.asarray(o2)):
      raise Violation('C17/query-not-repeatable/%s/%s' % (meth, self.name), '%r vs %r' % (o1, o2))
    if self.state_snapshot() != before:
      changed = [k for k, v in self.state_snapshot().items() if before.get(k) != v]
      raise Violation('C17/query-changed-state/%s/%s' % (meth, self.name), 'attributes %s changed' % changed)
    self.after(meth)
    return True

  def op_get_metric(self):
    if not self.fitted:
      return False
    d = DIMS[self.last_fit[0]]
    f = call('C17/get_metric/' + self.name, self.est.get_metric)
    probe = [(a.copy(), b.copy()) for a, b in self.probes[d]]
    val = np.array([f(a, b) for a, b in probe])
    pdv = self.est.pair_distance(self.probes[d])
    if not np.allclose(val, pdv, rtol=1e-9, atol=1e-300):
      raise Violation('C17/get_metric-vs-pair_distance/' + self.name, '%s vs %s' % (val, pdv))
    self.handouts.append(('metric', f, probe, val))
    self.after('get_metric')
    return True

  def op_get_matrix(self):
    if not self.fitted:
      return False
    before = self.state_snapshot()
    M = call('C17/get_mahalanobis_matrix/' + self.name, self.est.get_mahalanobis_matrix)
    keep = M.copy()
    d = DIMS[self.last_fit[0]]
    dist0 = self.est.pair_distance(self.probes[d])
    M[...] = -7.0                      # scribble over the returned array
    if self.state_snapshot() != before or not bits_equal(self.est.pair_distance(self.probes[d]), dist0):
      raise Violation('C17/returned-matrix-aliases-state/' + self.name, 'mutating the returned matrix changed the estimator')
    M2 = self.est.get_mahalanobis_matrix()
    if not bits_equal(M2, keep):
      raise Violation('C17/returned-matrix-aliases-state/' + self.name, 'second call returns the scribbled matrix')
    self.handouts.append(('matrix', keep, None, keep.copy()))
    self.after('get_mahalanobis_matrix')
    return True

  def op_clone(self):
    from sklearn.base import clone
    self.est = call('C17/clone/' + self.name, clone, self.est)
    new_params = self.est.get_params()
    for k in self.params:
      self.params[k] = new_params[k]
    for k, v in self.params.items():
      if isinstance(v, np.ndarray):
        self.track('parameter %s (clone)' % k, [v])
    self.fitted, self.stale, self.last_fit, self.thr_ops = False, False, None, []
    self.after('clone')
    return True

  def op_pickle(self):
    before_out = None
    if self.fitted:
      d = DIMS[self.last_fit[0]]
      before_out = self.est.pair_distance(self.probes[d])
    self.est = call('C17/pickle/' + self.name, lambda: pickle.loads(pickle.dumps(self.est)))
    new_params = self.est.get_params()
    for k in self.params:
      self.params[k] = new_params[k]
    if before_out is not None and not bits_equal(self.est.pair_distance(self.probes[d]), before_out):
      raise Violation('C17/pickle-changes-outputs/' + self.name, '')
    self.after('pickle')
    return True

  def run_op(self, op):
    kind = op[0]
    fn = {'fit': self.op_fit, 'thr': self.op_threshold, 'cal': self.op_calibrate, 'set': self.op_set_params,
          'seed': self.op_set_seed, 'arr': self.op_set_array, 'query': self.op_query, 'metric': self.op_get_metric,
          'matrix': self.op_get_matrix, 'clone': self.op_clone, 'pickle': self.op_pickle}[kind]
    done = fn(*op[1:])
    if done:
      self.ops.append(list(op))
      TRACE['ops'] = dict(est=self.name, dseed=self.dseed, ops=[list(o) for o in self.ops])
    return done

  def nontrivial(self):
    return len(self.n_fit_dims) >= 2 or 'mutable-arg' in self.flags or 'handout-then-refit' in self.flags


def make_machine(name, stats, known):
  class Machine(RuleBasedStateMachine):
    def __init__(self):
      super().__init__()
      self.m = None

    @initialize(dseed=st.integers(0, 10 ** 4))
    def init(self, dseed):
      self.m = Model(name, dseed, stats)
      TRACE['ops'] = dict(est=name, dseed=dseed, ops=[])

    def go(self, *op):
      try:
        self.m.run_op(op)
      except Discard as dd:
        stats.discards[dd.reason] += 1
        # the history ends here: reset to a fresh model with the same datasets
        self.m = Model(name, self.m.dseed, stats)
      except Violation as v:
        if v.sig in known:
          stats.known[v.sig] += 1
          self.m = Model(name, self.m.dseed, stats)
        else:
          raise

    extras = [None] + (['bounds', 'bounds'] if name.startswith('ITML') else []) + (['weights'] if name == 'LSML' else []) + \
        (['calibration'] if name in E.PAIRS else [])

    @rule(i=st.integers(0, 3), extra=st.sampled_from(extras))
    def fit(self, i, extra):
      self.go('fit', i, extra)

    @rule(i=st.integers(0, 3), extra=st.sampled_from(extras))
    def fit_again(self, i, extra):
      self.go('fit', i, extra)

    @rule(i=st.integers(0, 3))
    def fit_plain(self, i):
      self.go('fit', i, None)

    @rule(t=st.sampled_from([0.0, 0.5, 1.5, 3.0, 100.0]))
    def set_threshold(self, t):
      self.go('thr', t)

    @rule(s=st.sampled_from(['accuracy', 'f_beta', 'max_tpr', 'max_tnr']))
    def calibrate(self, s):
      self.go('cal', s)

    @rule(key=st.sampled_from(sorted(NUMERIC[name]) or ['none']), idx=st.integers(0, 2))
    def set_params(self, key, idx):
      self.go('set', key, idx)

    @rule(s=st.integers(0, 50))
    def set_seed(self, s):
      self.go('seed', s)

    @rule(i=st.integers(-1, 3), aseed=st.integers(0, 99))
    def set_array(self, i, aseed):
      self.go('arr', i, aseed)

    @precondition(lambda self: name in ARRAY_PARAM)
    @rule(i=st.integers(0, 3), aseed=st.integers(0, 99))
    def set_array_then_fit(self, i, aseed):
      # an array-valued option only matters in a fit on data of its dimensionality: issue the pair directly
      self.go('arr', i, aseed)
      self.go('fit', i, None)

    @rule(meth=st.sampled_from(['transform', 'pair_distance', 'pair_score', 'predict', 'decision_function', 'score']))
    def query(self, meth):
      self.go('query', meth)

    @rule()
    def get_metric(self):
      self.go('metric')

    @rule()
    def get_matrix(self):
      self.go('matrix')

    @rule()
    def clone(self):
      self.go('clone')

    @rule()
    def pickle_roundtrip(self):
      self.go('pickle')

    def teardown(self):
      if self.m is not None and self.m.ops:
        hist = dict(est=name, dseed=self.m.dseed, ops=self.m.ops)
        stats.case(hist, self.m.nontrivial(), [name, 'steps=%d' % min(len(self.m.ops), 25) if False else name + ':history'] +
                   sorted(self.m.flags) + (['multi-dim'] if len(self.m.n_fit_dims) >= 2 else []))
  return Machine


def check_history(case, stats):
  """replay: re-execute a recorded history without Hypothesis"""
  m = Model(case['est'], case['dseed'], stats)
  for op in case['ops']:
    m.run_op(tuple(op))
  stats.case(case, m.nontrivial(), [case['est']])


CHECKS = {'check_history': check_history}
_B = {'quick': (30, 12), 'thorough': (300, 25)}


def shards(tier):
  return [dict(name=n, est=n) for n in E.ALL]


def run_shard(shard, tier, seed, stats, known_sigs):
  name = shard['est']
  n, steps = _B[tier]
  if name in ('Covariance', 'RCA', 'LFDA', 'NCA', 'MLKR', 'LMNN', 'RCA_Supervised'):
    n *= 2           # cheap fits: more histories
  failures = []
  known = set(known_sigs)
  suppressed = set()
  for _ in range(3):
    M = make_machine(name, stats, known | suppressed)
    try:
      run_state_machine_as_test(hypothesis.seed(seed)(M), settings=make_settings(n, stateful_step_count=steps))
      break
    except Violation as v:
      failures.append(dict(sig=v.sig, msg=v.msg, case=jsonable(TRACE['ops']), check='check_history'))
      suppressed.add(v.sig)
  return failures
