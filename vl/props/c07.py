"""C07 - constraints generated from labels respect the labels (pairs, chunks, k-NN triplets)."""
import numpy as np
from hypothesis import strategies as st

from ..common import Violation, Discard, call, mlsub, recorded_warnings
from ..hyp import drive

RULE = ('Hypothesis label vectors built constructively (1-4 known classes of 1-8 members, 0-5 unknown '
        'labels in {-1,-2}, drawn permutation, arbitrary non-negative label codes, a quarter of them neighbouring integers near 2^20..2^62) x n_constraints / '
        'n_chunks / chunk_size / k_genuine / k_impostor in 1..12 x same_length x integer seeds; point '
        'sets for k-NN from a small integer grid (duplicates, distance ties) or continuous. '
        'Non-trivial = >= 2 known classes AND (an unknown label present OR a singleton class OR fewer '
        'constraints available than requested); distinct by sha1 of the canonical case.')
ASSUMPTIONS = ['tie-tolerant neighbour membership: a returned neighbour may be any point whose squared '
               'distance is <= the k-th smallest + 1e-9 * scale^2',
               'uniqueness of pairs is asserted for ordered pairs (a,b), as the property states "no pair is repeated"']


@st.composite
def label_vector(draw, min_known_classes=1, min_class_size=1, max_classes=4, max_size=8):
  kc = draw(st.integers(min_known_classes, max_classes))
  codes = draw(st.lists(st.integers(0, 9), min_size=kc, max_size=kc, unique=True))
  if draw(st.integers(0, 3)) == 0:
    # arbitrary non-negative codes: neighbouring large integers (hashes, ids) up to the int64 range
    big = 2 ** draw(st.integers(20, 62))
    codes = [big + c for c in codes]
  sizes = [draw(st.integers(min_class_size, max_size)) for _ in range(kc)]
  unknown = draw(st.lists(st.sampled_from([-1, -2]), min_size=0, max_size=5))
  y = []
  for c, m in zip(codes, sizes):
    y += [c] * m
  y += unknown
  return draw(st.permutations(y))


def _classes(y):
  y = np.asarray(y)
  known = sorted(set(int(v) for v in y if v >= 0))
  return known, {c: int((y == c).sum()) for c in known}


# ------------------------------------------------------------------------------------- pairs

@st.composite
def pairs_case(draw):
  y = draw(label_vector(min_known_classes=2))
  known, cnt = _classes(y)
  if max(cnt.values()) < 2:   # make one class a pair so that a positive pair exists
    y = list(y) + [known[0]]
  return dict(kind='pairs', y=list(y), n_constraints=draw(st.integers(1, 12)),
              same_length=draw(st.booleans()), seed=draw(st.integers(0, 2 ** 31 - 1)))


def check_pairs(case, stats):
  C = mlsub('constraints')
  y = np.array(case['y'], dtype=int)
  n = case['n_constraints']
  known, cnt = _classes(y)
  if len(known) < 2 or max(cnt.values()) < 2:
    raise Discard('no positive or no negative pair exists')
  n_pos_avail = sum(m * (m - 1) for m in cnt.values())
  tot = sum(cnt.values())
  n_neg_avail = sum(m * (tot - m) for m in cnt.values())
  cons = call('C07/Constraints', C.Constraints, y)      # ONE helper object for the whole history of calls below
  with recorded_warnings() as w:
    res = call('C07/pairs', lambda: cons.positive_negative_pairs(
        n, same_length=case['same_length'], random_state=case['seed']))
  warned = any('Only generated' in str(x.message) for x in w)
  if len(res) != 4:
    raise Violation('C07/pairs/arity', 'expected (a,b,c,d), got %d arrays' % len(res))
  a, b, c, d = [np.asarray(v) for v in res]
  if not (a.shape == b.shape and c.shape == d.shape and a.ndim == 1 and c.ndim == 1):
    raise Violation('C07/pairs/shape', 'shapes %s %s %s %s' % (a.shape, b.shape, c.shape, d.shape))
  for nm, arr in zip('abcd', (a, b, c, d)):
    if arr.size and (arr.min() < 0 or arr.max() >= len(y)):
      raise Violation('C07/pairs/index-range', '%s has index outside the caller array' % nm)
    if arr.size and (y[arr] < 0).any():
      raise Violation('C07/pairs/unknown-label-used', '%s references an unlabeled point: %s' % (nm, arr))
  if (y[a] != y[b]).any():
    raise Violation('C07/pairs/positive-labels-differ', 'a=%s b=%s' % (a, b))
  if (a == b).any():
    raise Violation('C07/pairs/identity-pair', 'a=%s b=%s' % (a, b))
  if (y[c] == y[d]).any():
    raise Violation('C07/pairs/negative-labels-equal', 'c=%s d=%s' % (c, d))
  if len(set(zip(a.tolist(), b.tolist()))) != len(a):
    raise Violation('C07/pairs/positive-repeated', 'a=%s b=%s' % (a, b))
  if len(set(zip(c.tolist(), d.tolist()))) != len(c):
    raise Violation('C07/pairs/negative-repeated', 'c=%s d=%s' % (c, d))
  if len(a) > n or len(c) > n:
    raise Violation('C07/pairs/too-many', '%d positive / %d negative for n_constraints=%d' % (len(a), len(c), n))
  if len(a) == 0 or len(c) == 0:
    raise Violation('C07/pairs/none-found', 'constraints exist but %d positive / %d negative returned' % (len(a), len(c)))
  if case['same_length'] and len(a) != len(c):
    raise Violation('C07/pairs/same-length', '%d vs %d' % (len(a), len(c)))
  short = len(a) < n or len(c) < n
  if short and not warned:
    raise Violation('C07/pairs/no-warning', 'fewer than requested (%d,%d of %d) without a warning' % (len(a), len(c), n))
  if warned and not short:
    raise Violation('C07/pairs/spurious-warning', 'warning although %d of each kind were returned' % n)
  # determinism: a fresh helper, and the SAME helper again after other methods have been used on it
  res2 = call('C07/pairs', lambda: C.Constraints(y).positive_negative_pairs(
      n, same_length=case['same_length'], random_state=case['seed']))
  call('C07/chunks-on-same-object', lambda: cons.chunks(n_chunks=1, chunk_size=1, random_state=case['seed']),
       expect=(ValueError,))
  res3 = call('C07/pairs', lambda: cons.positive_negative_pairs(
      n, same_length=case['same_length'], random_state=case['seed']))
  for u, v, x in zip(res, res2, res3):
    if not np.array_equal(u, v):
      raise Violation('C07/pairs/not-deterministic', 'same integer seed, different constraints')
    if not np.array_equal(u, x):
      raise Violation('C07/pairs/depends-on-history', 'same helper object, same seed, second call differs')
  if not np.array_equal(np.asarray(cons.partial_labels), y):
    raise Violation('C07/labels-modified', 'the helper changed its labels')
  # wrap_pairs: X[[a,b]] then X[[c,d]] with labels +1 / -1 in that order
  X = np.arange(len(y), dtype=float)[:, None] * np.array([[1.0, -2.0]])
  P, yy = call('C07/wrap_pairs', C.wrap_pairs, X, res)
  exp_idx = np.vstack([np.column_stack([a, b]), np.column_stack([c, d])])
  if not np.array_equal(P, X[exp_idx]) or not np.array_equal(yy, np.r_[np.ones(len(a)), -np.ones(len(c))]):
    raise Violation('C07/wrap_pairs', 'pairs/labels not X[[a,b]],+1 then X[[c,d]],-1')
  unknown = bool((y < 0).any())
  singleton = min(cnt.values()) == 1
  fewer = n_pos_avail < n or n_neg_avail < n
  stats.case(case, unknown or singleton or fewer,
             ['pairs', 'pairs:unknown' if unknown else 'pairs:all-known',
              'pairs:singleton' if singleton else 'pairs:no-singleton',
              'pairs:short' if short else 'pairs:full'])


# ------------------------------------------------------------------------------------- chunks

@st.composite
def chunks_case(draw):
  y = draw(label_vector(min_known_classes=1))
  return dict(kind='chunks', y=list(y), n_chunks=draw(st.integers(1, 12)),
              chunk_size=draw(st.integers(1, 5)), seed=draw(st.integers(0, 2 ** 31 - 1)))


def check_chunks(case, stats):
  C = mlsub('constraints')
  y = np.array(case['y'], dtype=int)
  nch, cs = case['n_chunks'], case['chunk_size']
  known, cnt = _classes(y)
  feasible = sum(m // cs for m in cnt.values())
  cons = call('C07/Constraints', C.Constraints, y)
  res = call('C07/chunks', lambda: cons.chunks(n_chunks=nch, chunk_size=cs, random_state=case['seed']),
             expect=(ValueError,))
  if feasible < nch:
    if not isinstance(res, ValueError):
      raise Violation('C07/chunks/infeasible-accepted',
                      'only %d chunks of size %d are possible, %d requested, no ValueError' % (feasible, cs, nch))
    stats.case(case, len(known) >= 2, ['chunks', 'chunks:infeasible'])
    return
  if isinstance(res, ValueError):
    raise Violation('C07/chunks/feasible-rejected',
                    '%d chunks of size %d are possible, %d requested, ValueError: %s' % (feasible, cs, nch, res))
  ch = np.asarray(res)
  if ch.shape != y.shape:
    raise Violation('C07/chunks/length', 'result shape %s for %d labels' % (ch.shape, len(y)))
  ids = sorted(set(ch.tolist()) - {-1})
  if ids != list(range(nch)):
    raise Violation('C07/chunks/ids', 'chunk ids %s, expected 0..%d' % (ids, nch - 1))
  if ch.min() < -1:
    raise Violation('C07/chunks/ids', 'id below -1')
  for i in ids:
    members = np.flatnonzero(ch == i)
    if len(members) != cs:
      raise Violation('C07/chunks/size', 'chunk %d has %d members, chunk_size=%d' % (i, len(members), cs))
    labs = set(y[members].tolist())
    if len(labs) != 1 or min(labs) < 0:
      raise Violation('C07/chunks/mixed-or-unknown', 'chunk %d has labels %s' % (i, sorted(labs)))
  if (ch[y < 0] != -1).any():
    raise Violation('C07/chunks/unknown-label-used', 'an unlabeled point was put in a chunk')
  res2 = call('C07/chunks', lambda: C.Constraints(y).chunks(n_chunks=nch, chunk_size=cs,
                                                            random_state=case['seed']))
  if not np.array_equal(ch, res2):
    raise Violation('C07/chunks/not-deterministic', 'same integer seed, different chunks')
  # the same helper object again (a second and third call must not see state left by the first)
  for rep in range(2):
    res3 = call('C07/chunks-second-call', lambda: cons.chunks(n_chunks=nch, chunk_size=cs, random_state=case['seed']),
                expect=(ValueError,))
    if isinstance(res3, ValueError) or not np.array_equal(ch, res3):
      raise Violation('C07/chunks/depends-on-history', 'call %d on the same helper object: %r, first call gave %s' % (rep + 2, res3, ch))
  unknown = bool((y < 0).any())
  singleton = bool(cnt) and min(cnt.values()) == 1
  stats.case(case, len(known) >= 2 and (unknown or singleton or feasible == nch),
             ['chunks', 'chunks:tight' if feasible == nch else 'chunks:slack',
              'chunks:unknown' if unknown else 'chunks:all-known'])


# ------------------------------------------------------------------------------------- k-NN triplets

@st.composite
def knn_case(draw):
  y = draw(label_vector(min_known_classes=2, min_class_size=2, max_size=6))
  d = draw(st.integers(1, 3))
  if draw(st.booleans()):
    X = [[float(draw(st.integers(0, 3))) for _ in range(d)] for _ in y]
    grid = True
  else:
    X = [[draw(st.floats(-10, 10, allow_nan=False, width=64)) for _ in range(d)] for _ in y]
    grid = False
  return dict(kind='knn', y=list(y), X=X, grid=grid, k_genuine=draw(st.integers(1, 6)),
              k_impostor=draw(st.integers(1, 12)))


def check_knn(case, stats):
  C = mlsub('constraints')
  y = np.array(case['y'], dtype=int)
  X = np.array(case['X'], dtype=float)
  kg, ki = case['k_genuine'], case['k_impostor']
  known, cnt = _classes(y)
  if len(known) < 2 or min(cnt.values()) < 2:
    raise Discard('k-NN domain: every known class needs >= 2 members, >= 2 known classes')
  Xin = X.copy()
  cons = call('C07/Constraints', C.Constraints, y)
  T = call('C07/knn', lambda: cons.generate_knntriplets(Xin, kg, ki))
  T = np.asarray(T)
  if T.ndim != 2 or T.shape[1] != 3:
    raise Violation('C07/knn/shape', 'shape %s' % (T.shape,))
  if T.size and (T.min() < 0 or T.max() >= len(y)):
    raise Violation('C07/knn/index-range', 'index outside the caller array')
  unknown = bool((y < 0).any())
  tag = 'with-unknown' if unknown else 'all-known'
  if (y[T] < 0).any():
    raise Violation('C07/knn/unknown-label-used/' + tag, 'triplets reference unlabeled points: labels %s'
                    % sorted(set(y[T].ravel().tolist())))
  scale2 = float((X ** 2).sum(axis=1).max()) + 1e-300
  tol = 1e-9 * scale2
  idx = np.arange(len(y))
  tot_known = sum(cnt.values())
  for a in np.flatnonzero(y >= 0):
    rows = T[T[:, 0] == a]
    same = idx[(y == y[a]) & (idx != a)]
    other = idx[(y >= 0) & (y != y[a])]
    kg_eff = min(kg, len(same))
    ki_eff = min(ki, len(other))
    if len(rows) != kg_eff * ki_eff:
      raise Violation('C07/knn/count/' + tag, 'anchor %d: %d triplets, expected %d*%d' % (a, len(rows), kg_eff, ki_eff))
    bs, cs_ = set(rows[:, 1].tolist()), set(rows[:, 2].tolist())
    if len(set(map(tuple, rows[:, 1:].tolist()))) != len(rows) or len(bs) != kg_eff or len(cs_) != ki_eff:
      raise Violation('C07/knn/combinations/' + tag, 'anchor %d: (b,c) are not all distinct combinations: %s' % (a, rows.tolist()))
    if a in bs:
      raise Violation('C07/knn/self-neighbour', 'anchor %d is its own genuine neighbour' % a)
    if not bs <= set(same.tolist()):
      raise Violation('C07/knn/genuine-label/' + tag, 'anchor %d (label %d): genuine neighbours %s have labels %s'
                      % (a, y[a], sorted(bs), y[sorted(bs)].tolist()))
    if not cs_ <= set(other.tolist()):
      raise Violation('C07/knn/impostor-label/' + tag, 'anchor %d (label %d): impostors %s have labels %s'
                      % (a, y[a], sorted(cs_), y[sorted(cs_)].tolist()))
    ds = np.sort(((X[same] - X[a]) ** 2).sum(axis=1))
    do = np.sort(((X[other] - X[a]) ** 2).sum(axis=1))
    for b in bs:
      if ((X[b] - X[a]) ** 2).sum() > ds[kg_eff - 1] + tol:
        raise Violation('C07/knn/genuine-not-nearest/' + tag, 'anchor %d: %d is not among the %d nearest same-class points' % (a, b, kg_eff))
    for c in cs_:
      if ((X[c] - X[a]) ** 2).sum() > do[ki_eff - 1] + tol:
        raise Violation('C07/knn/impostor-not-nearest/' + tag, 'anchor %d: %d is not among the %d nearest other-class points' % (a, c, ki_eff))
  if set(T[:, 0].tolist()) - set(np.flatnonzero(y >= 0).tolist()):
    raise Violation('C07/knn/anchor-unknown', 'anchor with unknown label')
  if not np.array_equal(Xin, X):
    raise Violation('C07/knn/input-modified', 'X was modified')
  T2 = call('C07/knn', lambda: C.Constraints(y).generate_knntriplets(X.copy(), kg, ki))
  if not np.array_equal(T, T2):
    raise Violation('C07/knn/not-deterministic', 'two calls differ')
  call('C07/pairs-on-same-object', lambda: cons.positive_negative_pairs(3, random_state=1))
  T3 = call('C07/knn', lambda: cons.generate_knntriplets(X.copy(), kg, ki))
  if not np.array_equal(T, T3):
    raise Violation('C07/knn/depends-on-history', 'second call on the same helper object differs')
  reduced = any(kg > m - 1 for m in cnt.values()) or any(ki > tot_known - m for m in cnt.values())
  stats.case(case, unknown or reduced,
             ['knn', 'knn:' + tag, 'knn:grid' if case['grid'] else 'knn:continuous',
              'knn:k-reduced' if reduced else 'knn:k-ok'])


CHECKS = {'check_pairs': check_pairs, 'check_chunks': check_chunks, 'check_knn': check_knn}
_STRATS = {'check_pairs': pairs_case, 'check_chunks': chunks_case, 'check_knn': knn_case}
_N = {'quick': 1600, 'thorough': 40000}


def shards(tier):
  per = {'quick': 4, 'thorough': 5}[tier]
  return [dict(name='%s-%d' % (k, i), check=k, n=_N[tier] // per) for k in CHECKS for i in range(per)]


def run_shard(shard, tier, seed, stats, known_sigs):
  return drive(CHECKS[shard['check']], _STRATS[shard['check']](), shard['n'], seed, stats,
               known_sigs, name=shard['check'])
