"""C10 - gradient-based learners (NCA, MLKR, LMNN) optimise the objective they document."""
import contextlib
import io
import math

import numpy as np
from hypothesis import strategies as st

from ..common import Violation, Discard, call, bits_equal
from ..hyp import drive
from .. import estimators as E, gen, oracles as O, observe

RULE = ('NCA / MLKR / LMNN on generated (X, y) (d <= 5, n <= ~30, plus an LMNN shard with one class of 513..560 members; '
        'y real-valued for MLKR) x init option x n_components x '
        'LMNN n_neighbors 1..3, regularization in (0.02,0.98), learn_rate, max_iter x Hypothesis evaluation points L in '
        'R^{k x d} (entries m*10^e, e in [-3,1], scaled by 1/std(X)) plus the optimiser\'s own start point, final point '
        'and (LMNN) every recorded iterate. The function handed to scipy.optimize.minimize (NCA, MLKR) / LMNN._loss_grad is '
        'captured by rebinding and compared with an explicit-loop evaluation of the documented objective and its analytic '
        'derivative, and with central differences of the oracle value. Non-trivial = k < d or non-default init, and (LMNN) '
        'at least one active and one inactive hinge / (NCA, MLKR) unsaturated neighbour probabilities; distinct by '
        '(case, evaluation point).')
ASSUMPTIONS = ['value tolerance 1e-8 relative to the magnitude of the summed terms, gradient 1e-7 relative to max|grad|, '
               'finite differences 1e-4 (LMNN only away from hinge kinks)',
               'LMNN target neighbours compared only when the k-th / (k+1)-th same-class distance gap exceeds 1e-9 relative',
               'zero optimiser iterations for NCA/MLKR is observed through OptimizeResult.nit == 0 (forced with tol=1e10)']
NAMES = ['NCA', 'MLKR', 'LMNN']


@st.composite
def case_strategy(draw, name):
  desc = draw(gen.dataset_desc(dmax=5, max_extra=2, max_classes=3))
  d = desc['d']
  nc = len(desc['sizes'])
  k = draw(st.one_of(st.none(), st.integers(1, d)))
  kk = d if k is None else k
  inits = ['auto', 'pca', 'identity', 'random', 'array']
  if name != 'MLKR' and kk <= min(d, nc - 1):
    inits.append('lda')
  pts = []
  for _ in range(draw(st.integers(1, 3))):
    pts.append([[draw(st.floats(-9.99, 9.99, allow_nan=False)) * 10.0 ** draw(st.integers(-3, 1)) for _ in range(d)]
                for _ in range(kk)])
  c = dict(est=name, desc=desc, k=k, init=draw(st.sampled_from(inits)), aseed=draw(st.integers(0, 999)),
           points=pts, zero_iter=draw(st.integers(0, 5)) == 0, max_iter=draw(st.sampled_from([1, 2, 3, 6, 12, 25])))
  if name == 'LMNN':
    c.update(n_neighbors=draw(st.integers(1, 3)), reg=draw(st.floats(0.02, 0.98, allow_nan=False)),
             learn_rate=10.0 ** draw(st.integers(-7, 3)))
  return c


@st.composite
def large_case(draw):
  """LMNN on several hundred points: one class above 512 members (the sizes at which a blocked / batched
  impostor search would start to matter), small iteration budget."""
  c = draw(case_strategy('LMNN'))
  desc = dict(c['desc'])
  nc = len(desc['sizes'])
  sizes = [draw(st.integers(4, 24)) for _ in range(nc)]
  sizes[draw(st.integers(0, nc - 1))] = draw(st.integers(513, 560))
  desc['sizes'] = sizes
  desc['sep'] = draw(st.sampled_from([0.0, 0.5, 1.0]))
  c.update(desc=desc, large=True, max_iter=draw(st.sampled_from([2, 3, 4])), points=c['points'][:1])
  return c


def close(a, b, tol):
  return abs(a - b) <= tol


def check_minimize_based(case, stats, data, name):
  d = data.d
  k = case['k']
  kk = d if k is None else k
  y = data.y if name == 'NCA' else data.yreal
  init = gen.transform_from_seed(kk, d, case['aseed']) if case['init'] == 'array' else case['init']
  params = dict(init=init, n_components=k, max_iter=case['max_iter'], random_state=case['aseed'])
  if case['zero_iter']:
    params['tol'] = 1e10
  est = E.build(name, params)
  with observe.record_minimize(name.lower()) as rec:
    call('C10/%s/fit' % name, est.fit, data.X, y)
  if 'fun' not in rec:
    raise Violation('C10/%s/no-optimiser-call' % name, 'scipy.optimize.minimize was not called')
  fun, args, x0, res = rec['fun'], rec['args'], rec['x0'], rec['result']
  oracle = O.nca_value_grad if name == 'NCA' else O.mlkr_value_grad
  sign = -1.0 if name == 'NCA' else 1.0
  L0 = x0.reshape(kk, d)
  Lf = np.asarray(est.components_)
  if Lf.shape != (kk, d):
    if name == 'NCA' and case['init'] in ('auto', 'lda') and Lf.shape[0] < kk and E.lda_rank_short(data.X, y, kk):
      raise Discard('known-finding KF5: scikit-learn LDA returned fewer directions than n_components (owned by C03 / C20)')
    raise Violation('C10/%s/shape' % name, '%s' % (Lf.shape,))
  sx = float(data.X.std()) or 1.0
  pts = [('x0', L0), ('final', Lf)] + [('generated', np.array(p) / sx) for p in case['points']]
  vals = {}
  for label, L in pts:
    lv, lg = call('C10/%s/objective-call' % name, fun, L.ravel().copy(), *args)
    lv, lg = sign * float(lv), sign * np.asarray(lg, dtype=float).reshape(kk, d)
    ov, og, P = oracle(L, data.X, y)
    vals[label] = ov
    mag = max(abs(ov), 1.0) if name == 'NCA' else max(abs(ov), float((np.asarray(y) ** 2).sum()) * 1e-3, 1e-300)
    if not close(lv, ov, 1e-8 * mag):
      raise Violation('C10/%s/value/%s' % (name, label), 'library %r vs documented objective %r at L=%s' % (lv, ov, L.tolist()))
    gs = max(np.abs(og).max(), 1e-300)
    # the library forms the gradient from matrix products of the embedded and raw coordinates: its rounding
    # error scales with max|Z| max|X| sum|W|, not with the (possibly cancelling) result
    Zmax = float(np.abs(data.X.dot(L.T)).max())
    yr = 1.0 if name == 'NCA' else float(np.ptp(np.asarray(y, dtype=float))) ** 2
    gfloor = 64 * 2.3e-16 * data.n * d * max(Zmax, 1e-300) * float(np.abs(data.X).max()) * 16 * max(yr, 1e-300)
    if np.abs(lg - og).max() > 1e-7 * gs + gfloor:
      raise Violation('C10/%s/gradient/%s' % (name, label), 'max|grad_lib - grad_doc| = %g (scale %g)' % (np.abs(lg - og).max(), gs))
    unsat = bool((P.max(axis=1) < 1 - 1e-6).any())
    if label == 'generated' and unsat:
      # central differences of the ORACLE value against the library gradient (a few entries)
      h = 1e-6 * max(np.abs(L).max(), 1e-3)
      idxs = list(np.ndindex(kk, d))[:: max(1, (kk * d) // 4)]
      for idx in idxs:
        Lp, Lm = L.copy(), L.copy()
        Lp[idx] += h
        Lm[idx] -= h
        fd = (oracle(Lp, data.X, y)[0] - oracle(Lm, data.X, y)[0]) / (2 * h)
        Lp2, Lm2 = L.copy(), L.copy()
        Lp2[idx] += h / 2
        Lm2[idx] -= h / 2
        fd2 = (oracle(Lp2, data.X, y)[0] - oracle(Lm2, data.X, y)[0]) / h
        trunc = 4 * abs(fd - fd2)            # Richardson estimate of the truncation error of the stencil
        fd = fd2
        if abs(fd - lg[idx]) > 1e-4 * gs + 1e-10 * mag / h + gfloor + trunc:
          raise Violation('C10/%s/finite-difference' % name, 'entry %s: FD of documented value %r vs library gradient %r' % (idx, fd, lg[idx]))
    nontrivial = (kk < d or case['init'] != 'auto') and unsat
    stats.case(dict(case=case, point=label), nontrivial, [name, 'point:' + label, 'init:' + case['init'],
                                                          'lowrank' if kk < d else 'fullrank'])
  # descent
  f0, f1 = vals['x0'], vals['final']
  if name == 'NCA' and f1 < f0 - 1e-10 * max(abs(f0), 1.0):
    raise Violation('C10/NCA/descent', 'objective at components_ %r is worse than at the initial transformation %r' % (f1, f0))
  if name == 'MLKR' and f1 > f0 + 1e-10 * max(abs(f0), 1.0):
    raise Violation('C10/MLKR/descent', 'objective at components_ %r is worse than at the initial transformation %r' % (f1, f0))
  if not bits_equal(np.asarray(res.x).reshape(kk, d), Lf):
    raise Violation('C10/%s/result-not-optimiser-output' % name, 'components_ differs from OptimizeResult.x')
  if res.nit == 0:
    stats.classes['zero-iterations'] += 1
    if not bits_equal(Lf, L0):
      raise Violation('C10/%s/zero-iterations' % name, 'nit == 0 but components_ != initialisation')


def check_lmnn(case, stats, data):
  d = data.d
  k = case['k']
  kk = d if k is None else k
  init = gen.transform_from_seed(kk, d, case['aseed']) if case['init'] == 'array' else case['init']
  nn, reg = case['n_neighbors'], case['reg']
  params = dict(init=init, n_components=k, max_iter=case['max_iter'], n_neighbors=nn, regularization=reg,
                learn_rate=case['learn_rate'], min_iter=2, random_state=case['aseed'], verbose=True)
  est = E.build('LMNN', params)
  buf = io.StringIO()
  with observe.record_method('lmnn', 'LMNN', '_loss_grad') as calls, contextlib.redirect_stdout(buf):
    call('C10/LMNN/fit', est.fit, data.X, data.y)
  if not calls:
    raise Violation('C10/LMNN/no-objective-call', '_loss_grad never called')
  large = bool(case.get('large'))
  value_grad = O.lmnn_value_grad_large if large else O.lmnn_value_grad
  T, gap = (O.lmnn_targets_large if large else O.lmnn_targets)(data.X, data.y, nn)
  args0 = calls[0][0]
  Xl, L_first, dfG, kl, regl, tn, label_inds = args0
  if gap > 1e-9:
    for i in range(data.n):
      if set(np.asarray(tn[i]).tolist()) != set(T[i]):
        raise Violation('C10/LMNN/target-neighbours', 'point %d: library targets %s, %d nearest same-class points in input space %s'
                        % (i, np.asarray(tn[i]).tolist(), nn, T[i]))
  else:
    stats.inconclusive['target-neighbour tie'] += 1
    T = [np.asarray(tn[i]).tolist() for i in range(data.n)]
  yl = data.y

  def compare(L, lib_obj, lib_grad, label):
    ov, og, kink, na, ni, mag = value_grad(L, data.X, yl, T, reg)
    if not close(float(lib_obj), ov, 1e-8 * max(mag, 1e-300)):
      raise Violation('C10/LMNN/value/' + label, 'library %r vs documented objective %r (reg=%r, k=%d)' % (float(lib_obj), ov, reg, nn))
    gs = max(np.abs(og).max(), 1e-300)
    if np.abs(np.asarray(lib_grad) - og).max() > 1e-7 * gs + 1e-10 * mag:
      raise Violation('C10/LMNN/gradient/' + label, 'max|grad_lib - grad_doc| = %g (scale %g)' % (np.abs(np.asarray(lib_grad) - og).max(), gs))
    return ov, kink, na, ni, gs, mag

  objs = []
  step = max(1, len(calls) // (2 if large else 6))
  for ci, (a, kw, res) in enumerate(calls):
    if ci % step and ci != len(calls) - 1:
      continue
    ov, kink, na, ni, gs, mag = compare(a[1], res[1], res[0], 'iterate')
    stats.case(dict(case=case, iterate=ci), (kk < d or case['init'] != 'auto') and na > 0 and ni > 0,
               ['LMNN', 'point:iterate', 'init:' + case['init'], 'lowrank' if kk < d else 'fullrank'] +
               (['large:n=%d+' % (data.n // 100 * 100)] if large else []))
  sx = float(data.X.std()) or 1.0
  for p in case['points']:
    L = np.array(p) / sx
    G2, obj, tot = call('C10/LMNN/objective-call', est._loss_grad, Xl.copy(), L.copy(), dfG, kl, regl, tn, label_inds)
    ov, kink, na, ni, gs, mag = compare(L, obj, G2, 'generated')
    if tot != na:
      raise Violation('C10/LMNN/active-count', 'library counts %d active constraints, documented hinge has %d' % (tot, na))
    if kink > 1e-5 * max(1.0, mag / max(na + ni, 1)) and not large:
      h = 1e-6 * max(np.abs(L).max(), 1e-3)
      idxs = list(np.ndindex(kk, d))[:: max(1, (kk * d) // 3)]
      for idx in idxs:
        Lp, Lm = L.copy(), L.copy()
        Lp[idx] += h
        Lm[idx] -= h
        fp = value_grad(Lp, data.X, yl, T, reg)
        fm = value_grad(Lm, data.X, yl, T, reg)
        if fp[3] != na or fm[3] != na:
          continue      # a hinge switched inside the stencil
        fd = (fp[0] - fm[0]) / (2 * h)
        if abs(fd - np.asarray(G2)[idx]) > 1e-4 * gs + 1e-9 * mag / h:
          raise Violation('C10/LMNN/finite-difference', 'entry %s: FD of documented value %r vs library gradient %r' % (idx, fd, np.asarray(G2)[idx]))
    stats.case(dict(case=case, point=p), (kk < d or case['init'] != 'auto') and na > 0 and ni > 0,
               ['LMNN', 'point:generated', 'hinges:both' if na and ni else 'hinges:one-kind'])
  # accepted iterates: verbose lines "it objective delta active learn_rate"
  accepted = []
  for line in buf.getvalue().splitlines():
    parts = line.split()
    if len(parts) == 5 and parts[0].isdigit():
      try:
        accepted.append(float(parts[1]))
      except ValueError:
        pass
  f_init = float(calls[0][2][1])
  seq = [f_init] + accepted
  for a, b in zip(seq, seq[1:]):
    if b > a:
      raise Violation('C10/LMNN/accepted-not-monotone', 'accepted objectives %s' % seq)
  Lf = np.asarray(est.components_)
  if accepted:
    cands = [a[1] for (a, kw, res) in calls if float(res[1]) == accepted[-1]]
    if not any(bits_equal(Lf, c) for c in cands):
      raise Violation('C10/LMNN/components-not-last-accepted', 'components_ is not the iterate of the last accepted line')
  elif not bits_equal(Lf, calls[0][0][1]):
    raise Violation('C10/LMNN/zero-iterations', 'no accepted iterate but components_ != initial transformation')
  fin = value_grad(Lf, data.X, yl, T, reg)[0]
  ini = value_grad(calls[0][0][1], data.X, yl, T, reg)[0]
  if fin > ini + 1e-9 * max(abs(ini), 1.0):
    raise Violation('C10/LMNN/descent', 'objective at components_ %r worse than at the initial transformation %r' % (fin, ini))


def check_c10(case, stats):
  data = gen.Data(case['desc'])
  if case['est'] == 'LMNN':
    if min(case['desc']['sizes']) <= case['n_neighbors']:
      raise Discard('class smaller than n_neighbors + 1')
    check_lmnn(case, stats, data)
  else:
    check_minimize_based(case, stats, data, case['est'])


CHECKS = {'check_c10': check_c10}
_B = {'quick': 60, 'thorough': 1500}


def shards(tier):
  reps = 5
  return [dict(name='%s-%d' % (n, i), est=n) for n in NAMES for i in range(reps)] + \
      [dict(name='LMNN-large', est='LMNN', large=True)]


def run_shard(shard, tier, seed, stats, known_sigs):
  if shard.get('large'):
    return drive(check_c10, large_case(), {'quick': 4, 'thorough': 100}[tier], seed, stats, known_sigs, name='check_c10')
  return drive(check_c10, case_strategy(shard['est']), _B[tier], seed, stats, known_sigs, name='check_c10')
