"""C09 - closed-form learners (Covariance, RCA, LFDA) compute their documented formula."""
import math

import numpy as np
from hypothesis import strategies as st

from ..common import Violation, Discard, call, EPS, recorded_warnings
from ..hyp import drive
from .. import estimators as E, gen, oracles as O

RULE = ('Covariance: generated (X) incl. rank-deficient layouts (duplicated column, constant column, n <= d, n <= d with a repeated sample or all samples on a line / plane) vs the four '
        'Moore-Penrose conditions w.r.t. an own two-pass covariance; RCA: chunk layouts with -1 holes, singleton chunks, '
        'non-contiguous ids, n_components 1..d vs own within-chunk covariance (M C = I; reduced: L C L^T = I_k and the '
        'retained generalised eigenvalues are the k smallest of (C, T)); LFDA: k in {None,1..d-1,>=d} x embedding_type x '
        'n_components x class layouts with a class of <= k members sorted first vs an O(n^2) pairwise construction of the '
        'local scatter matrices (eigen-residual of every component, eigenvalue order, top-k eigenvalues, scaling). '
        'Non-trivial = non-default configuration or a named corner layout; distinct by canonical case.')
ASSUMPTIONS = ['LFDA weighted scaling is asserted up to a common additive shift of the eigenvalues (see DESIGN section 5 remark)',
               'residual tolerances 1e-7 relative (probe after repair: ~1e-13)',
               'Covariance on data with n <= d: asserted only when the numerical rank is unambiguous (noise eigenvalues < d eps lambda_max / 4)']


# ------------------------------------------------------------------------------------- Covariance

@st.composite
def cov_case(draw):
  desc = draw(gen.dataset_desc(dmin=1, dmax=8))
  layout = draw(st.sampled_from(['full', 'full', 'dup-column', 'const-column', 'few-samples', 'few-samples-repeat', 'few-samples-subspace']))
  return dict(kind='cov', desc=desc, layout=layout, j=draw(st.integers(0, 7)), n_few=draw(st.integers(2, 8)))


def check_cov(case, stats):
  data = gen.Data(case['desc'])
  X = data.X.copy()
  d = data.d
  lay = case['layout']
  j = case['j'] % d
  if d == 1 and lay != 'full':
    raise Discard('singular 1-d data is outside the stated domain (n_features >= 2)')
  if lay == 'dup-column' and d >= 2:
    X[:, j] = X[:, (j + 1) % d]
  elif lay == 'const-column':
    X[:, j] = 3.25
  elif lay == 'few-samples':
    X = X[:max(2, min(case['n_few'], d))]
  elif lay == 'few-samples-repeat':
    # no more samples than features AND a repeated sample: rank n - 2
    X = X[:max(3, min(case['n_few'], d))]
    X[-1] = X[j % (len(X) - 1)]
  elif lay == 'few-samples-subspace':
    # no more samples than features, all on one affine line / plane: rank 1 or 2
    m_ = max(3, min(case['n_few'], d))
    r_ = 1 + j % 2
    if m_ - 1 <= r_:
      raise Discard('too few samples for a rank-deficient subspace layout')
    coef = np.round(X[:m_, :r_] * 8) / 8
    X = X[0] + coef.dot(X[m_:m_ + r_] - X[0])
  est = E.build('Covariance', {})
  r = call('C09/Covariance/fit', est.fit, X)
  M = est.get_mahalanobis_matrix()
  if not np.isfinite(M).all():
    raise Violation('C09/Covariance/non-finite', 'M contains NaN/inf')
  C = O.cov_two_pass(X)
  w = np.linalg.eigvalsh(C)
  lmax = max(w.max(), 1e-300)
  cutoff = d * EPS * lmax
  ambiguous = bool(((np.abs(w) > cutoff / 4) & (np.abs(w) < cutoff * 1e4)).any())
  if ambiguous:
    stats.inconclusive['numerical rank of the covariance ambiguous'] += 1
    return
  if d == 1:
    if w[0] > 0 and not abs(M[0, 0] - 1.0 / C[0, 0]) <= 1e-12 / C[0, 0]:
      raise Violation('C09/Covariance/d1', 'M=%r, 1/var=%r' % (M[0, 0], 1.0 / C[0, 0]))
  res = O.moore_penrose_residuals(C, M)
  cond_eff = lmax / max(w[np.abs(w) > cutoff].min(), 1e-300) if (np.abs(w) > cutoff).any() else 1.0
  if max(res) > 1e-8 * max(1.0, cond_eff) / 1e0 and max(res) > 1e-9 * cond_eff:
    raise Violation('C09/Covariance/pseudo-inverse/' + lay, 'Penrose residuals %s (effective cond %g)' % (res, cond_eff))
  if (np.abs(w) > cutoff).all() and cond_eff < 1e8:
    if np.abs(M.dot(C) - np.eye(d)).max() > 1e-8 * cond_eff:
      raise Violation('C09/Covariance/inverse/' + lay, 'max|M C - I| = %g' % np.abs(M.dot(C) - np.eye(d)).max())
  stats.case(case, lay != 'full', ['Covariance', 'cov:' + lay])


# ------------------------------------------------------------------------------------- RCA

@st.composite
def rca_case(draw):
  few = draw(st.integers(0, 2)) == 0
  desc = draw(gen.dataset_desc(dmin=5 if few else 2, dmax=8))
  d = desc['d']
  k = draw(st.one_of(st.none(), st.integers(1, d), st.integers(1, d)))
  if few:
    k = draw(st.integers(2, d - 1))      # reduced dimension larger than the number of chunks
  return dict(kind='rca', desc=desc, k=k,
              cseed=draw(st.integers(0, 10 ** 6)), singleton=draw(st.booleans()), gaps=draw(st.booleans()),
              few=few)


def make_chunk_layout(data, case):
  rs = np.random.RandomState(case['cseed'])
  if case.get('few'):
    # FEW BIG chunks: every class is one chunk (or is split in two), a few points stay unchunked - the between-chunk
    # scatter then has rank <= n_chunks - 1 << d and the pencil (C, T) has a repeated eigenvalue
    chunks = -np.ones(data.n, dtype=int)
    cid = 0
    for c in np.unique(data.y):
      idx = rs.permutation(np.flatnonzero(data.y == c))
      if len(idx) >= 8 and rs.rand() < 0.3:
        halves = [idx[:len(idx) // 2], idx[len(idx) // 2:]]
      else:
        halves = [idx]
      for h in halves:
        chunks[h[:max(2, len(h) - rs.randint(0, 2))]] = cid
        cid += 1
    return chunks
  chunks = gen.make_chunks(data.y, rs, data.d, holes=True)
  if case['singleton']:
    free = np.flatnonzero(chunks == -1)
    if len(free):
      chunks[free[0]] = chunks.max() + 1
  if case['gaps']:
    ids = sorted(set(chunks.tolist()) - {-1})
    remap = {c: 2 * i + (i % 2) for i, c in enumerate(ids)}
    chunks = np.array([remap.get(c, -1) for c in chunks.tolist()])
  return chunks


def check_rca(case, stats):
  data = gen.Data(case['desc'])
  X, d = data.X, data.d
  chunks = make_chunk_layout(data, case)
  k = case['k']
  C, N = O.rca_within_chunk_cov(X, chunks)
  wC = np.linalg.eigvalsh(C)
  if wC.min() <= 1e-10 * wC.max():
    raise Discard('within-chunk covariance not full rank with margin')
  est = E.build('RCA', dict(n_components=k))
  call('C09/RCA/fit', est.fit, X, chunks)
  L = np.asarray(est.components_)
  if not np.isrealobj(L):
    raise Violation('C09/RCA/complex', 'components_ dtype %s' % L.dtype)
  kk = d if k is None else k
  if L.shape != (kk, d):
    raise Violation('C09/RCA/shape', '%s' % (L.shape,))
  if not np.isfinite(L).all():
    raise Violation('C09/RCA/non-finite', 'components_ contains NaN/inf although the within-chunk covariance is full rank')
  condC = wC.max() / wC.min()
  W = L.dot(C).dot(L.T)
  if np.abs(W - np.eye(kk)).max() > 1e-8 * condC:
    raise Violation('C09/RCA/whitening/%s' % ('full' if kk == d else 'reduced'),
                    'L C L^T deviates from I_k by %g (cond C %g)' % (np.abs(W - np.eye(kk)).max(), condC))
  if kk == d:
    M = L.T.dot(L)
    if np.abs(M.dot(C) - np.eye(d)).max() > 1e-8 * condC:
      raise Violation('C09/RCA/inverse', 'max|M C - I| = %g' % np.abs(M.dot(C) - np.eye(d)).max())
  else:
    T = O.cov_two_pass(X[chunks != -1])
    ref, _ = O.gen_eigvals(C, T)          # descending generalised eigenvalues of C v = lambda T v
    want = np.sort(ref)[:kk]
    A = L.T
    got = np.sort(np.linalg.eigvals(np.linalg.solve(A.T.dot(T).dot(A), A.T.dot(C).dot(A))).real)
    if np.abs(got - want).max() > 1e-7 * max(np.abs(ref).max(), 1e-300) * max(1.0, condC ** 0.5):
      raise Violation('C09/RCA/retained-subspace', 'retained within/total eigenvalues %s, the %d smallest are %s' % (got, kk, want))
  stats.case(case, k is not None or case['singleton'] or case['gaps'] or bool((chunks == -1).any()),
             ['RCA', 'rca:reduced' if kk < d else 'rca:full', 'rca:holes' if (chunks == -1).any() else 'rca:all-chunked',
              'rca:few-big-chunks' if case.get('few') else 'rca:many-chunks'])


# ------------------------------------------------------------------------------------- LFDA

@st.composite
def lfda_case(draw):
  desc = draw(gen.dataset_desc(dmax=7, max_extra=4))
  d = desc['d']
  if draw(st.integers(0, 2)) == 0:
    # a class of 4 members that sorts first in label order, others large
    desc['sizes'] = [4] + [max(s, d + 3) for s in desc['sizes'][1:]]
    desc['labels'] = 'range'
  k = draw(st.one_of(st.none(), st.integers(1, max(1, d - 1)), st.integers(d, d + 3)))
  tiny = draw(st.integers(0, 9))
  if tiny <= 2:
    # "any class layout": an extra class of 1, 2 or 3 members (smaller than k + 1), in a drawn label position
    desc['sizes'] = list(desc['sizes'])
    desc['sizes'].insert(draw(st.integers(0, len(desc['sizes']))), tiny + 1)
    desc['labels'] = 'range'
  return dict(kind='lfda', desc=desc, k=k, emb=draw(st.sampled_from(['weighted', 'orthonormalized', 'plain'])),
              nc=draw(st.one_of(st.none(), st.integers(1, d))))


def check_lfda(case, stats):
  data = gen.Data(case['desc'])
  X, y, d = data.X, data.y, data.d
  k, emb, nc = case['k'], case['emb'], case['nc']
  kk = d if nc is None else nc
  if k is None:
    keff = min(7, d - 1)
  elif k >= d:
    keff = d - 1
  else:
    keff = k
  if keff < 1:
    raise Discard('k_eff < 1 (d = 1)')
  est = E.build('LFDA', dict(k=k, embedding_type=emb, n_components=nc))
  with recorded_warnings() as w:
    call('C09/LFDA/fit', est.fit, X, y)
  warned = any('too large' in str(x.message) for x in w)
  if (k is not None and k >= d) != warned:
    raise Violation('C09/LFDA/k-warning', 'k=%r d=%d warned=%s' % (k, d, warned))
  L = np.asarray(est.components_, dtype=float)
  if L.shape != (kk, d):
    raise Violation('C09/LFDA/shape', '%s' % (L.shape,))
  if not np.isfinite(L).all():
    raise Violation('C09/LFDA/non-finite', 'components_ contains NaN/inf')
  Sw, Sb = O.lfda_scatter(X, y, keff)
  ref, _ = O.gen_eigvals(Sb, Sw)
  small_class = min(case['desc']['sizes']) <= keff
  tag = 'tiny-class' if min(case['desc']['sizes']) < 4 else ('small-class' if small_class else 'all-classes-large')
  lam = []
  for i, l in enumerate(L):
    den = float(l.dot(Sw).dot(l))
    if den <= 0:
      raise Violation('C09/LFDA/degenerate-component', 'row %d has l^T Sw l = %g' % (i, den))
    lam.append(float(l.dot(Sb).dot(l)) / den)
  lam = np.array(lam)
  scale = max(np.abs(ref).max(), 1e-300)
  if emb != 'orthonormalized':
    for i, l in enumerate(L):
      resid = np.linalg.norm(Sb.dot(l) - lam[i] * Sw.dot(l))
      if resid > 1e-7 * (np.linalg.norm(Sb.dot(l)) + abs(lam[i]) * np.linalg.norm(Sw.dot(l))):
        raise Violation('C09/LFDA/eigen-residual/' + tag,
                        'row %d: ||Sb l - lambda Sw l|| / scale = %g (k_eff=%d, sizes=%s)'
                        % (i, resid / (np.linalg.norm(Sb.dot(l)) + 1e-300), keff, case['desc']['sizes']))
    if (np.diff(lam) > 1e-7 * scale).any():
      raise Violation('C09/LFDA/order/' + tag, 'eigenvalues not decreasing: %s' % lam)
    if np.abs(lam - ref[:kk]).max() > 1e-7 * scale:
      raise Violation('C09/LFDA/leading-eigenvalues/' + tag, 'Rayleigh quotients %s, %d largest reference eigenvalues %s' % (lam, kk, ref[:kk]))
  else:
    if np.abs(L.dot(L.T) - np.eye(kk)).max() > 1e-8:
      raise Violation('C09/LFDA/orthonormal', 'L L^T deviates from I by %g' % np.abs(L.dot(L.T) - np.eye(kk)).max())
    # span(l_1..l_j) == span of the first j generalised eigenvectors
    _, V = O.gen_eigvals(Sb, Sw)
    gaps = np.abs(np.diff(ref)) > 1e-6 * scale
    for j in range(1, kk + 1):
      if j < d and not gaps[j - 1]:
        continue
      Q, _ = np.linalg.qr(V[:, :j])
      resid = np.linalg.norm(L[:j].T - Q.dot(Q.T.dot(L[:j].T)))
      if resid > 1e-6:
        raise Violation('C09/LFDA/orthonormal-span/' + tag, 'span of the first %d rows is not the span of the first %d eigenvectors (residual %g)' % (j, j, resid))
  if emb == 'weighted' and kk >= 1:
    plain = E.build('LFDA', dict(k=k, embedding_type='plain', n_components=nc))
    call('C09/LFDA/fit-plain', plain.fit, X, y)
    Lp = np.asarray(plain.components_, dtype=float)
    q = np.array([float(a.dot(Sw).dot(a)) / float(b.dot(Sw).dot(b)) for a, b in zip(L, Lp)])
    if (q <= 0).any() or not np.isfinite(q).all():
      raise Violation('C09/LFDA/weighted-scale', 'scale ratios %s' % q)
    shift = q - lam
    if np.abs(shift - shift[0]).max() > 1e-6 * max(scale, abs(shift[0]), 1.0):
      raise Violation('C09/LFDA/weighted-scale', 'squared scale factors %s are not eigenvalues %s plus a constant' % (q, lam))
  default = k is None and emb == 'weighted' and nc is None
  stats.case(case, (not default) or small_class, ['LFDA', 'lfda:' + emb, 'lfda:' + tag,
                                                  'lfda:k=None' if k is None else ('lfda:k>=d' if k >= d else 'lfda:k<d')])


CHECKS = {'check_cov': check_cov, 'check_rca': check_rca, 'check_lfda': check_lfda}
_STR = {'check_cov': cov_case, 'check_rca': rca_case, 'check_lfda': lfda_case}
_B = {'quick': dict(check_cov=800, check_rca=600, check_lfda=400),
      'thorough': dict(check_cov=50000, check_rca=20000, check_lfda=8000)}


def shards(tier):
  out = []
  for c in CHECKS:
    per = 8 if c == 'check_lfda' else 4
    for i in range(per):
      out.append(dict(name='%s-%d' % (c, i), check=c, n=max(1, _B[tier][c] // per)))
  return out


def run_shard(shard, tier, seed, stats, known_sigs):
  c = shard['check']
  return drive(CHECKS[c], _STR[c](), shard['n'], seed, stats, known_sigs, name=c)
