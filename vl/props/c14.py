"""C14 - MMC returns a PSD matrix that satisfies its similarity budget."""
import math

import numpy as np
from hypothesis import strategies as st

from ..common import Violation, Discard, call
from ..hyp import drive
from .. import estimators as E, gen, oracles as O

RULE = ('MMC and MMC_Supervised on generated labelled pairs (both labels, d >= 2) x init in {identity (over-sampled), '
        'covariance, random, SPD array} x max_iter in {1,2,5,30,100} x tol x max_proj = 2000 x diagonal in {False, True} x '
        'diagonal_c = 10^[-2,2].  Oracle: own construction of the initial matrix, own alternating projection (decides the '
        'stated precondition "max_proj large enough for one projection to converge": cases needing more than max_proj/2 rounds '
        'are discarded), postconditions (PSD, budget within 1%, first projection for max_iter=1, dissimilarity objective not '
        'below that of the first projection) and a full reference run of the documented scheme compared when every branch '
        'decision has margin > 1e-9.  Non-trivial = init != identity or max_iter > 1; distinct by canonical case.')
ASSUMPTIONS = ['budget clause asserted only inside the stated precondition (own projection converges within max_proj/2 rounds)',
               'reference run compared at 1e-6 only when all branch margins exceed 1e-9, otherwise that sub-check is inconclusive',
               'diagonal=True: the only admissible outcomes are a finite non-negative diagonal matrix or ValueError']
NAMES = ['MMC', 'MMC_Supervised']


@st.composite
def case_strategy(draw, name):
  desc = draw(gen.dataset_desc(dmax=6, scales=False))
  return dict(est=name, desc=desc, init=draw(st.sampled_from(['identity', 'identity', 'identity', 'covariance', 'random', 'array'])),
              aseed=draw(st.integers(0, 999)), seed=draw(st.integers(0, 999)), n_pairs=draw(st.integers(6, 40)),
              max_iter=draw(st.sampled_from([1, 1, 2, 5, 30, 100])), logtol=draw(st.integers(-6, -2)),
              diagonal=draw(st.integers(0, 5)) == 0, logc=draw(st.floats(-2, 2, allow_nan=False)))


def oracle_init(init, d, P, seed):
  if isinstance(init, np.ndarray):
    return init.copy()
  if init == 'identity':
    return np.eye(d)
  if init == 'random':
    from sklearn.datasets import make_spd_matrix
    return make_spd_matrix(d, random_state=seed)
  X = np.unique(P.reshape(-1, d), axis=0)
  C = O.cov_two_pass(X)
  return np.linalg.pinv(C, hermitian=True)


def check_c14(case, stats):
  name = case['est']
  data = gen.Data(case['desc'])
  d = data.d
  init = gen.spd_from_seed(d, case['aseed']) if case['init'] == 'array' else case['init']
  if case['init'] == 'array' and case['aseed'] % 2 == 0:
    init = np.asfortranarray(init)          # same matrix, column-major memory layout
  tol = 10.0 ** case['logtol']
  if case['diagonal'] and case['aseed'] % 4 == 0:
    tol = [1.0, 10.0][case['aseed'] % 8 // 4]        # legal but unusual: the Newton loop does not run at all
  params = dict(init=init, max_iter=case['max_iter'], max_proj=2000, tol=tol, diagonal=case['diagonal'],
                diagonal_c=10.0 ** case['logc'], random_state=case['seed'])
  if name == 'MMC':
    rs = np.random.RandomState(case['seed'] + 17)
    pidx, yy = gen.make_pairs(data.X, data.y, case['n_pairs'], rs)
    if len(set(yy.tolist())) < 2:
      raise Discard('pairs of one label only')
    P = data.X[pidx]
    fargs = (P, yy)
  else:
    from ..common import mlsub
    C = mlsub('constraints')
    params['n_constraints'] = max(3, case['n_pairs'] // 2)
    pn = C.Constraints(data.y).positive_negative_pairs(params['n_constraints'], random_state=case['seed'])
    P, yy = C.wrap_pairs(data.X, pn)
    fargs = (data.X, data.y)
  est = E.build(name, params)
  tag = '%s/%s' % (name, case['init'])
  diffS = P[yy == 1][:, 0] - P[yy == 1][:, 1]
  diffD = P[yy == -1][:, 0] - P[yy == -1][:, 1]
  if case['diagonal']:
    r = call('C14/fit-diagonal/' + name, est.fit, *fargs, expect=(ValueError,))
    if isinstance(r, ValueError):
      stats.case(case, True, [name, 'diagonal', 'ValueError'])
      return
    M = est.get_mahalanobis_matrix()
    if not np.isfinite(M).all():
      raise Violation('C14/diagonal-nonfinite/' + tag, 'fit returned NaN/inf')
    if np.abs(M - np.diag(np.diag(M))).max() != 0:
      raise Violation('C14/diagonal-not-diagonal/' + tag, '%r' % (M,))
    if (np.diag(M) < 0).any():
      raise Violation('C14/diagonal-negative/' + tag, '%r' % (np.diag(M),))
    stats.case(case, True, [name, 'diagonal', 'returned'])
    return
  A0 = oracle_init(init, d, P, case['seed'])
  W = diffS.T.dot(diffS)
  t = float((W * A0).sum()) / 100.0
  if t <= 0:
    raise Discard('similar pairs have zero length under the initial matrix')
  proj0, ok0, rounds0, _ = O.mmc_project(A0.copy(), W, t, 1000)
  if not ok0:
    raise Discard('own alternating projection needs more than max_proj/2 rounds (outside the stated precondition)')
  call('C14/fit/' + name, est.fit, *fargs)
  M = est.get_mahalanobis_matrix()
  if not np.isfinite(M).all():
    raise Violation('C14/nonfinite/' + tag, '')
  nM = max(np.linalg.norm(M, 2), 1e-300)
  if np.linalg.eigvalsh((M + M.T) / 2).min() < -1e-10 * nM:
    raise Violation('C14/not-psd/' + tag, 'lambda_min = %g' % np.linalg.eigvalsh((M + M.T) / 2).min())
  budget = float((W * M).sum())
  if budget > 1.01 * t * (1 + 1e-6):
    raise Violation('C14/budget-exceeded/' + tag, 'sum_S d_M^2 = %g, budget t = %g (x%.3f), init %s, max_iter %d'
                    % (budget, t, budget / t, case['init'], case['max_iter']))
  fproj = O.mmc_fD(diffD, proj0)
  fM = O.mmc_fD(diffD, M)
  if fM < fproj - 1e-9 * max(1.0, abs(fproj)):
    raise Violation('C14/objective-below-first-projection/' + tag, 'g(M) = %r < g(projection of init) = %r' % (fM, fproj))
  if case['max_iter'] == 1:
    if np.abs(M - proj0).max() > 1e-8 * max(np.abs(proj0).max(), 1e-300):
      raise Violation('C14/first-projection/' + tag, 'max_iter=1: max|M - projection(init)| = %g (relative %g)'
                      % (np.abs(M - proj0).max(), np.abs(M - proj0).max() / np.abs(proj0).max()))
  ref, first, margin, _ = O.mmc_reference(A0, diffS, diffD, case['max_iter'], 2000, tol)
  if margin > 1e-9:
    if np.abs(M - ref).max() > 1e-6 * max(np.abs(ref).max(), 1e-300):
      raise Violation('C14/reference-run/' + tag, 'max|M - reference| = %g relative (max_iter %d)' % (np.abs(M - ref).max() / np.abs(ref).max(), case['max_iter']))
    stats.classes['reference-compared'] += 1
  else:
    stats.inconclusive['reference run has a branch margin <= 1e-9'] += 1
  stats.case(case, case['init'] != 'identity' or case['max_iter'] > 1, [name, 'full', 'init:' + case['init'],
                                                                       'max_iter=%d' % case['max_iter']])


CHECKS = {'check_c14': check_c14}
_B = {'quick': 40, 'thorough': 1000}


def shards(tier):
  return [dict(name='%s-%d' % (n, i), est=n) for n in NAMES for i in range(6)]


def run_shard(shard, tier, seed, stats, known_sigs):
  return drive(check_c14, case_strategy(shard['est']), _B[tier], seed, stats, known_sigs, name='check_c14')
