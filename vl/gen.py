"""Shared generators.  Descriptors are plain JSON-able dicts drawn by Hypothesis; continuous
bulk data is expanded from a drawn integer seed with RandomState (a pure function of the
generated value, so shrinking and replay work).  Tuples / chunks are built by this module's
own code - never with metric_learn.constraints - so generators stay independent of the code
under test."""
import math

import numpy as np
from hypothesis import strategies as st

GRID = 2.0 ** -6


# ----------------------------------------------------------------------------- datasets

@st.composite
def dataset_desc(draw, dmin=2, dmax=8, max_classes=4, max_extra=6, grid=False, scales=True,
                 max_sep=3.0):
  d = draw(st.integers(dmin, dmax))
  c = draw(st.integers(2, max_classes))
  need = int(math.ceil(4.0 * d / c))
  sizes = [max(4, need) + draw(st.integers(0, max_extra)) for _ in range(c)]
  if draw(st.booleans()):
    # unbalanced: shrink one class to the minimum of 4 members, give the others the rest
    i = draw(st.integers(0, c - 1))
    deficit = sizes[i] - 4
    sizes[i] = 4
    j = (i + 1) % c
    sizes[j] += deficit
  desc = dict(d=d, sizes=sizes, seed=draw(st.integers(0, 2 ** 31 - 1)),
              logscale=draw(st.sampled_from([0, 0, 0, -2, -1, 1, 2])) if scales else 0,
              cond=draw(st.sampled_from([1, 1, 3, 10, 100])),
              sep=draw(st.sampled_from([0.0, 0.5, 1.0, 2.0, max_sep])),
              labels=draw(st.sampled_from(['range', 'shifted', 'scrambled'])),
              grid=bool(grid))
  return desc


def expand(desc):
  """descriptor -> (X float64 (n, d), y int (n,)) in a drawn, fixed sample order."""
  d, sizes = desc['d'], desc['sizes']
  rs = np.random.RandomState(desc['seed'])
  c = len(sizes)
  mus = rs.randn(c, d) * desc['sep']
  Z = np.vstack([rs.randn(m, d) + mus[i] for i, m in enumerate(sizes)])
  # anisotropy: orthogonal * diag * orthogonal
  Q, _ = np.linalg.qr(rs.randn(d, d))
  s = np.logspace(0, math.log10(desc['cond']), d)
  T = (Q * s).dot(Q.T)
  X = Z.dot(T) * (10.0 ** desc['logscale'])
  codes = {'range': list(range(c)), 'shifted': [3 + 2 * i for i in range(c)],
           'scrambled': [(7 * i + 5) % 11 for i in range(c)]}[desc['labels']]
  y = np.concatenate([np.full(m, codes[i], dtype=int) for i, m in enumerate(sizes)])
  perm = rs.permutation(len(y))
  X, y = X[perm], y[perm]
  if desc.get('grid'):
    X = np.round(X / GRID) * GRID
  return np.ascontiguousarray(X, dtype=float), y


def make_pairs(X, y, n_pairs, rs):
  """index pairs (m, 2) with labels +-1, both labels present, no collapsed pair."""
  n = len(y)
  scale = float(np.abs(X).max()) or 1.0
  pos, neg = [], []
  tries = 0
  while (len(pos) < (n_pairs + 1) // 2 or len(neg) < n_pairs // 2) and tries < 50 * n_pairs:
    tries += 1
    i, j = rs.randint(n), rs.randint(n)
    if i == j or np.linalg.norm(X[i] - X[j]) <= 1e-6 * scale:
      continue
    if y[i] == y[j] and y[i] >= 0 and len(pos) < (n_pairs + 1) // 2:
      pos.append((i, j))
    elif y[i] != y[j] and y[i] >= 0 and y[j] >= 0 and len(neg) < n_pairs // 2:
      neg.append((i, j))
  idx = np.array(pos + neg, dtype=int)
  lab = np.array([1] * len(pos) + [-1] * len(neg), dtype=int)
  perm = rs.permutation(len(lab))
  return idx[perm], lab[perm]


def make_triplets(X, y, m, rs):
  """index triplets (a, same-class b != a, other-class c)."""
  n = len(y)
  out = []
  while len(out) < m:
    a = rs.randint(n)
    same = np.flatnonzero((y == y[a]) & (np.arange(n) != a))
    other = np.flatnonzero(y != y[a])
    if len(same) == 0 or len(other) == 0:
      continue
    out.append((a, same[rs.randint(len(same))], other[rs.randint(len(other))]))
  return np.array(out, dtype=int)


def make_quads(X, y, m, rs):
  """index quadruplets (a, b, c, d): (a,b) same class - should be closer than (c,d) of different
  classes.  No collapsed pair."""
  n = len(y)
  out = []
  while len(out) < m:
    a = rs.randint(n)
    same = np.flatnonzero((y == y[a]) & (np.arange(n) != a))
    if len(same) == 0:
      continue
    b = same[rs.randint(len(same))]
    c = rs.randint(n)
    other = np.flatnonzero(y != y[c])
    dd = other[rs.randint(len(other))]
    out.append((a, b, c, dd))
  return np.array(out, dtype=int)


def make_chunks(y, rs, d, holes=True):
  """chunk labels with -1 holes, unbalanced sizes; sum(size-1) >= 2 d so that the inner
  covariance is full rank with margin."""
  n = len(y)
  chunks = -np.ones(n, dtype=int)
  cid = 0
  free = {c: list(rs.permutation(np.flatnonzero(y == c))) for c in np.unique(y)}
  total = 0
  classes = list(free)
  guard = 0
  while guard < 10 * n:
    guard += 1
    c = classes[rs.randint(len(classes))]
    avail = free[c]
    if len(avail) < 2:
      if all(len(free[k]) < 2 for k in classes):
        break
      continue
    size = min(len(avail), 2 + rs.randint(3))
    members = [avail.pop() for _ in range(size)]
    chunks[members] = cid
    cid += 1
    total += size - 1
    if total >= 2 * d and (not holes or rs.rand() < 0.35):
      break
  return chunks


class Data:
  """Everything a learner may be fitted on, derived lazily from one descriptor."""

  def __init__(self, desc):
    self.desc = desc
    self.X, self.y = expand(desc)
    self.n, self.d = self.X.shape
    self._c = {}

  def _rs(self, salt):
    return np.random.RandomState((self.desc['seed'] * 31 + salt) % (2 ** 31 - 1))

  @property
  def n_classes(self):
    return len(self.desc['sizes'])

  @property
  def pairs_idx(self):
    if 'pairs' not in self._c:
      m = max(8, min(40, 2 * self.d + 8))
      self._c['pairs'] = make_pairs(self.X, self.y, m, self._rs(1))
    return self._c['pairs']

  @property
  def pairs(self):
    return self.X[self.pairs_idx[0]]

  @property
  def ypairs(self):
    return self.pairs_idx[1]

  @property
  def triplets_idx(self):
    if 'trip' not in self._c:
      self._c['trip'] = make_triplets(self.X, self.y, max(self.d + 4, 16), self._rs(2))
    return self._c['trip']

  @property
  def triplets(self):
    return self.X[self.triplets_idx]

  @property
  def quads_idx(self):
    if 'quad' not in self._c:
      self._c['quad'] = make_quads(self.X, self.y, 16, self._rs(3))
    return self._c['quad']

  @property
  def quads(self):
    return self.X[self.quads_idx]

  @property
  def chunks(self):
    if 'chunks' not in self._c:
      self._c['chunks'] = make_chunks(self.y, self._rs(4), self.d)
    return self._c['chunks']

  @property
  def yreal(self):
    if 'yreal' not in self._c:
      rs = self._rs(5)
      w = rs.randn(self.d)
      self._c['yreal'] = self.X.dot(w) / (np.abs(self.X).max() or 1.0) + 0.3 * rs.randn(self.n) \
          + (self.y % 3)
    return self._c['yreal']


# ----------------------------------------------------------------------------- matrices

def spd_from_seed(d, seed, cond=100.0):
  rs = np.random.RandomState(seed)
  Q, _ = np.linalg.qr(rs.randn(d, d))
  w = np.logspace(0, math.log10(cond), d) * (0.5 + rs.rand())
  M = (Q * w).dot(Q.T)
  return (M + M.T) / 2


def transform_from_seed(k, d, seed):
  rs = np.random.RandomState(seed)
  return rs.randn(k, d)


def basis_from_seed(K, d, seed):
  rs = np.random.RandomState(seed)
  B = rs.randn(K, d)
  return B / np.linalg.norm(B, axis=1, keepdims=True)


# ----------------------------------------------------------------------------- query points

def coord(max_exp=100):
  """m * 10^e with e in [-max_exp, max_exp]."""
  return st.builds(lambda m, e: m * 10.0 ** e,
                   st.floats(-9.99, 9.99, allow_nan=False, width=64),
                   st.integers(-max_exp, max_exp))


def moderate_float(lo=-1e3, hi=1e3):
  return st.floats(lo, hi, allow_nan=False, allow_infinity=False, width=64)


@st.composite
def point(draw, d, max_exp=100, shared_exp=None):
  if shared_exp is None:
    shared_exp = draw(st.booleans())
  if shared_exp:
    e = draw(st.integers(-max_exp, max_exp))
    return [draw(st.floats(-9.99, 9.99, allow_nan=False, width=64)) * 10.0 ** e for _ in range(d)]
  return [draw(coord(max_exp)) for _ in range(d)]
