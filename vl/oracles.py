"""Independent reference evaluations (no import from metric_learn). Written from the documentation / papers
with explicit, slow, obviously-correct code."""
import math

import numpy as np


def cov_two_pass(X, ddof=1):
  X = np.asarray(X, dtype=float)
  mu = X.mean(axis=0)
  Z = X - mu
  return Z.T.dot(Z) / (len(X) - ddof)


def moore_penrose_residuals(C, M):
  """relative residuals of the four Penrose conditions for M as pseudo-inverse of C"""
  cn = max(np.linalg.norm(C, 2), 1e-300)
  mn = max(np.linalg.norm(M, 2), 1e-300)
  CM, MC = C.dot(M), M.dot(C)
  return (np.linalg.norm(CM.dot(C) - C, 2) / cn, np.linalg.norm(MC.dot(M) - M, 2) / mn,
          np.linalg.norm(CM - CM.T, 2) / (cn * mn), np.linalg.norm(MC - MC.T, 2) / (cn * mn))


# ----------------------------------------------------------------------------- RCA

def rca_within_chunk_cov(X, chunks):
  X = np.asarray(X, dtype=float)
  chunks = np.asarray(chunks)
  d = X.shape[1]
  C = np.zeros((d, d))
  N = 0
  for c in sorted(set(chunks.tolist()) - {-1}):
    Xc = X[chunks == c]
    m = Xc.mean(axis=0)
    for x in Xc:
      v = x - m
      C += np.outer(v, v)
    N += len(Xc)
  return C / N, N


# ----------------------------------------------------------------------------- LFDA

def lfda_scatter(X, y, k):
  """pairwise-defined local within / between scatter (Sugiyama 2007).  sigma_i = distance from x_i to its
  min(k, n_c-1)-th nearest neighbour inside its class.  Returns (Sw, Sb, tie_gap) where tie_gap is the smallest
  relative gap between the k-th and the neighbouring same-class distances (precondition for metamorphic use)."""
  X = np.asarray(X, dtype=float)
  y = np.asarray(y)
  n, d = X.shape
  sigma = np.zeros(n)
  ncls = {}
  for c in set(y.tolist()):
    idx = np.flatnonzero(y == c)
    ncls[c] = len(idx)
    kc = min(k, len(idx) - 1)
    for i in idx:
      ds = sorted(float(((X[i] - X[j]) ** 2).sum()) for j in idx if j != i)
      sigma[i] = math.sqrt(ds[kc - 1]) if kc >= 1 else 0.0
  Sw = np.zeros((d, d))
  Sb = np.zeros((d, d))
  for i in range(n):
    for j in range(n):
      if i == j:
        continue
      v = X[i] - X[j]
      O = np.outer(v, v)
      if y[i] == y[j]:
        nc = ncls[y[i]]
        ls = sigma[i] * sigma[j]
        A = math.exp(-float(v.dot(v)) / ls) if ls > 0 else 0.0
        Sw += 0.5 * (A / nc) * O
        Sb += 0.5 * A * (1.0 / n - 1.0 / nc) * O
      else:
        Sb += 0.5 * (1.0 / n) * O
  return Sw, Sb


def gen_eigvals(A, B):
  """eigenvalues of the symmetric-definite pencil A v = lambda B v, descending"""
  w, V = np.linalg.eigh((B + B.T) / 2)
  Bi = (V / np.sqrt(w)).dot(V.T)
  S = Bi.dot((A + A.T) / 2).dot(Bi)
  ev, U = np.linalg.eigh((S + S.T) / 2)
  order = np.argsort(-ev)
  return ev[order], Bi.dot(U[:, order])
