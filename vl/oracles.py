"""Independent reference evaluations (no import from metric_learn). Written from the documentation / papers
with explicit, slow, obviously-correct code."""
import math

import numpy as np


def cov_two_pass(X, ddof=1):
  X = np.asarray(X, dtype=float)
  mu = X.mean(axis=0)
  Z = X - mu
  return Z.T.dot(Z) / (len(X) - ddof)


def moore_penrose_residuals(C, M):
  """relative residuals of the four Penrose conditions for M as pseudo-inverse of C"""
  cn = max(np.linalg.norm(C, 2), 1e-300)
  mn = max(np.linalg.norm(M, 2), 1e-300)
  CM, MC = C.dot(M), M.dot(C)
  return (np.linalg.norm(CM.dot(C) - C, 2) / cn, np.linalg.norm(MC.dot(M) - M, 2) / mn,
          np.linalg.norm(CM - CM.T, 2) / (cn * mn), np.linalg.norm(MC - MC.T, 2) / (cn * mn))


# ----------------------------------------------------------------------------- RCA

def rca_within_chunk_cov(X, chunks):
  X = np.asarray(X, dtype=float)
  chunks = np.asarray(chunks)
  d = X.shape[1]
  C = np.zeros((d, d))
  N = 0
  for c in sorted(set(chunks.tolist()) - {-1}):
    Xc = X[chunks == c]
    m = Xc.mean(axis=0)
    for x in Xc:
      v = x - m
      C += np.outer(v, v)
    N += len(Xc)
  return C / N, N


# ----------------------------------------------------------------------------- LFDA

def lfda_scatter(X, y, k):
  """pairwise-defined local within / between scatter (Sugiyama 2007).  sigma_i = distance from x_i to its
  min(k, n_c-1)-th nearest neighbour inside its class.  Returns (Sw, Sb, tie_gap) where tie_gap is the smallest
  relative gap between the k-th and the neighbouring same-class distances (precondition for metamorphic use)."""
  X = np.asarray(X, dtype=float)
  y = np.asarray(y)
  n, d = X.shape
  sigma = np.zeros(n)
  ncls = {}
  for c in set(y.tolist()):
    idx = np.flatnonzero(y == c)
    ncls[c] = len(idx)
    kc = min(k, len(idx) - 1)
    for i in idx:
      ds = sorted(float(((X[i] - X[j]) ** 2).sum()) for j in idx if j != i)
      sigma[i] = math.sqrt(ds[kc - 1]) if kc >= 1 else 0.0
  Sw = np.zeros((d, d))
  Sb = np.zeros((d, d))
  for i in range(n):
    for j in range(n):
      if i == j:
        continue
      v = X[i] - X[j]
      O = np.outer(v, v)
      if y[i] == y[j]:
        nc = ncls[y[i]]
        ls = sigma[i] * sigma[j]
        A = math.exp(-float(v.dot(v)) / ls) if ls > 0 else 0.0
        Sw += 0.5 * (A / nc) * O
        Sb += 0.5 * A * (1.0 / n - 1.0 / nc) * O
      else:
        Sb += 0.5 * (1.0 / n) * O
  return Sw, Sb


def gen_eigvals(A, B):
  """eigenvalues of the symmetric-definite pencil A v = lambda B v, descending"""
  w, V = np.linalg.eigh((B + B.T) / 2)
  Bi = (V / np.sqrt(w)).dot(V.T)
  S = Bi.dot((A + A.T) / 2).dot(Bi)
  ev, U = np.linalg.eigh((S + S.T) / 2)
  order = np.argsort(-ev)
  return ev[order], Bi.dot(U[:, order])


# ----------------------------------------------------------------------------- NCA / MLKR / LMNN objectives

def _sqdist_embedded(X, L):
  Z = X.dot(L.T)
  n = len(Z)
  D = np.zeros((n, n))
  for i in range(n):
    for j in range(n):
      v = Z[i] - Z[j]
      D[i, j] = float(v.dot(v))
  return D


def _softmax_rows_excluding_self(D):
  n = len(D)
  P = np.zeros((n, n))
  for i in range(n):
    idx = [j for j in range(n) if j != i]
    m = min(D[i, j] for j in idx)
    e = {j: math.exp(-(D[i, j] - m)) for j in idx}
    s = sum(e.values())
    for j in idx:
      P[i, j] = e[j] / s
  return P


def nca_value_grad(L, X, y):
  """f(L) = sum_i sum_{j != i, y_j == y_i} p_ij (to be maximised) and df/dL."""
  X = np.asarray(X, dtype=float)
  n, d = X.shape
  D = _sqdist_embedded(X, L)
  P = _softmax_rows_excluding_self(D)
  f = 0.0
  S = np.zeros((d, d))
  for i in range(n):
    pi = sum(P[i, j] for j in range(n) if j != i and y[j] == y[i])
    f += pi
    for j in range(n):
      if j == i:
        continue
      v = X[i] - X[j]
      O = np.outer(v, v)
      S += pi * P[i, j] * O
      if y[j] == y[i]:
        S -= P[i, j] * O
  return f, 2.0 * L.dot(S), P


def mlkr_value_grad(L, X, y):
  """f(L) = sum_i (y_i - yhat_i)^2 with leave-one-out Gaussian kernel regression, and df/dL."""
  X = np.asarray(X, dtype=float)
  y = np.asarray(y, dtype=float)
  n, d = X.shape
  D = _sqdist_embedded(X, L)
  P = _softmax_rows_excluding_self(D)
  yhat = P.dot(y)
  f = float(((yhat - y) ** 2).sum())
  S = np.zeros((d, d))
  for i in range(n):
    for j in range(n):
      if j == i:
        continue
      v = X[i] - X[j]
      S += (yhat[i] - y[i]) * (yhat[i] - y[j]) * P[i, j] * np.outer(v, v)
  return f, 4.0 * L.dot(S), P


def lmnn_targets(X, y, k):
  """k nearest same-class points in input space; also the smallest relative gap at the k-th boundary."""
  X = np.asarray(X, dtype=float)
  n = len(X)
  T = []
  gap = float('inf')
  for i in range(n):
    same = [j for j in range(n) if j != i and y[j] == y[i]]
    ds = sorted((float(((X[i] - X[j]) ** 2).sum()), j) for j in same)
    T.append([j for _, j in ds[:k]])
    if len(ds) > k:
      gap = min(gap, (ds[k][0] - ds[k - 1][0]) / max(ds[k][0], 1e-300))
  return T, gap


def lmnn_value_grad(L, X, y, T, reg):
  """documented LMNN objective and gradient; also the smallest |hinge argument| (kink distance)."""
  X = np.asarray(X, dtype=float)
  n, d = X.shape
  Z = X.dot(L.T)
  pull = 0.0
  push = 0.0
  Spull = np.zeros((d, d))
  Spush = np.zeros((d, d))
  kink = float('inf')
  n_active = 0
  n_inactive = 0
  mag = 0.0
  for i in range(n):
    for j in T[i]:
      vij = X[i] - X[j]
      dij = float(((Z[i] - Z[j]) ** 2).sum())
      pull += dij
      mag += reg * dij
      Spull += np.outer(vij, vij)
      for l in range(n):
        if y[l] == y[i]:
          continue
        vil = X[i] - X[l]
        dil = float(((Z[i] - Z[l]) ** 2).sum())
        h = 1.0 + dij - dil
        kink = min(kink, abs(h))
        if h > 0:
          push += h
          mag += (1 - reg) * (1.0 + dij + dil)
          Spush += np.outer(vij, vij) - np.outer(vil, vil)
          n_active += 1
        else:
          n_inactive += 1
  f = reg * pull + (1 - reg) * push
  G = 2.0 * L.dot(reg * Spull + (1 - reg) * Spush)
  return f, G, kink, n_active, n_inactive, mag


def lmnn_targets_large(X, y, k):
  """same as lmnn_targets, one vectorised row at a time (for hundreds of points)."""
  X = np.asarray(X, dtype=float)
  y = np.asarray(y)
  n = len(X)
  T = []
  gap = float('inf')
  for i in range(n):
    same = np.flatnonzero((y == y[i]) & (np.arange(n) != i))
    ds = ((X[same] - X[i]) ** 2).sum(axis=1)
    order = np.lexsort((same, ds))
    T.append(same[order[:k]].tolist())
    if len(same) > k:
      a, b = float(ds[order[k - 1]]), float(ds[order[k]])
      gap = min(gap, (b - a) / max(b, 1e-300))
  return T, gap


def lmnn_value_grad_large(L, X, y, T, reg):
  """documented LMNN objective and gradient, the sum over impostors l vectorised for each (i, j) - same
  definition as lmnn_value_grad, independent of the library's impostor search."""
  X = np.asarray(X, dtype=float)
  y = np.asarray(y)
  n, d = X.shape
  Z = X.dot(L.T)
  pull = push = mag = 0.0
  Spull = np.zeros((d, d))
  Spush = np.zeros((d, d))
  kink = float('inf')
  n_active = n_inactive = 0
  for i in range(n):
    other = np.flatnonzero(y != y[i])
    Vil = X[i] - X[other]
    dil = ((Z[i] - Z[other]) ** 2).sum(axis=1)
    for j in T[i]:
      vij = X[i] - X[j]
      dij = float(((Z[i] - Z[j]) ** 2).sum())
      pull += dij
      mag += reg * dij
      Spull += np.outer(vij, vij)
      h = 1.0 + dij - dil
      if len(h):
        kink = min(kink, float(np.abs(h).min()))
      act = h > 0
      na = int(act.sum())
      if na:
        push += float(h[act].sum())
        mag += (1 - reg) * float((1.0 + dij + dil[act]).sum())
        Va = Vil[act]
        Spush += na * np.outer(vij, vij) - Va.T.dot(Va)
      n_active += na
      n_inactive += len(h) - na
  f = reg * pull + (1 - reg) * push
  G = 2.0 * L.dot(reg * Spull + (1 - reg) * Spush)
  return f, G, kink, n_active, n_inactive, mag


def central_differences(fun, L, h):
  G = np.zeros_like(L)
  for idx in np.ndindex(*L.shape):
    Lp = L.copy()
    Lm = L.copy()
    Lp[idx] += h
    Lm[idx] -= h
    G[idx] = (fun(Lp) - fun(Lm)) / (2 * h)
  return G


# ----------------------------------------------------------------------------- LSML

def lsml_objective(M, vab, vcd, w, prior_inv):
  dab = np.einsum('ij,jk,ik->i', vab, M, vab)
  dcd = np.einsum('ij,jk,ik->i', vcd, M, vcd)
  hinge = np.where(dab > dcd, (np.sqrt(np.maximum(dab, 0)) - np.sqrt(np.maximum(dcd, 0))) ** 2, 0.0)
  sign, logdet = np.linalg.slogdet(M)
  if sign <= 0:
    return float('inf')
  return float((w * hinge).sum() + np.trace(M.dot(prior_inv)) - logdet)


def lsml_gradient(M, vab, vcd, w, prior_inv):
  G = prior_inv - np.linalg.inv(M)
  dab = np.einsum('ij,jk,ik->i', vab, M, vab)
  dcd = np.einsum('ij,jk,ik->i', vcd, M, vcd)
  for i in range(len(w)):
    if dab[i] > dcd[i] and dcd[i] > 0:
      G = G + w[i] * ((1 - math.sqrt(dcd[i] / dab[i])) * np.outer(vab[i], vab[i]) +
                      (1 - math.sqrt(dab[i] / dcd[i])) * np.outer(vcd[i], vcd[i]))
  return G


def lsml_descend(M, vab, vcd, w, prior_inv, iters=150):
  """own gradient descent with backtracking on the documented objective, started at M"""
  f = lsml_objective(M, vab, vcd, w, prior_inv)
  step = 1.0
  for _ in range(iters):
    G = lsml_gradient(M, vab, vcd, w, prior_inv)
    G = (G + G.T) / 2
    gn = np.linalg.norm(G)
    if gn < 1e-12:
      break
    improved = False
    while step > 1e-14:
      Mn = M - step * G
      ev = np.linalg.eigvalsh(Mn)
      fn = lsml_objective(Mn, vab, vcd, w, prior_inv) if ev.min() > 0 else float('inf')
      if fn < f - 1e-4 * step * gn ** 2:
        M, f = Mn, fn
        step *= 2.0
        improved = True
        break
      step /= 2.0
    if not improved:
      break
  return M, f


# ----------------------------------------------------------------------------- SDML / graphical lasso

def glasso_objective(M, S, lam):
  sign, logdet = np.linalg.slogdet(M)
  if sign <= 0:
    return float('inf')
  off = np.abs(M).sum() - np.abs(np.diag(M)).sum()
  return float(np.trace(S.dot(M)) - logdet + lam * off)


def glasso_admm(S, lam, iters=20000, tol=1e-11):
  """minimise tr(S X) - logdet X + lam * sum_{i != j} |X_ij| by ADMM (Boyd et al. 2011, section 6.5),
  on the problem rescaled to trace(S)/d = 1.  Returns (X, converged)."""
  d = len(S)
  s = float(np.trace(S)) / d
  Ss, ls = S / s, lam / s
  rho = 1.0
  Z = np.eye(d)
  U = np.zeros((d, d))
  conv = False
  for it in range(iters):
    w, Q = np.linalg.eigh(rho * (Z - U) - Ss)
    x = (w + np.sqrt(w ** 2 + 4 * rho)) / (2 * rho)
    X = (Q * x).dot(Q.T)
    Zold = Z
    A = X + U
    Z = np.sign(A) * np.maximum(np.abs(A) - ls / rho, 0.0)
    Z[np.diag_indices(d)] = np.diag(A)
    U = U + X - Z
    r = np.linalg.norm(X - Z)
    sdual = rho * np.linalg.norm(Z - Zold)
    if r < tol * max(1.0, np.linalg.norm(X)) and sdual < tol * max(1.0, np.linalg.norm(U)):
      conv = True
      break
  Zs = (Z + Z.T) / 2
  if np.linalg.eigvalsh(Zs).min() > 0:
    return Zs / s, conv
  return (X + X.T) / 2 / s, conv


# ----------------------------------------------------------------------------- MMC

def mmc_fD(diffD, A):
  return math.log(float(np.sqrt(np.maximum(np.einsum('ij,jk,ik->i', diffD, A, diffD), 0)).sum()) + 1e-6)


def mmc_fD1(diffD, A):
  dist = np.sqrt(np.maximum(np.einsum('ij,jk,ik->i', diffD, A, diffD), 0))
  G = np.zeros_like(A)
  for v, dd in zip(diffD, dist):
    G += np.outer(v, v) * (0.5 / (dd + 1e-6))
  return G / (dist.sum() + 1e-6)


def mmc_grad_projection(g1, g2):
  g2 = g2 / np.linalg.norm(g2)
  gt = g1 - np.sum(g1 * g2) * g2
  return gt / np.linalg.norm(gt)


def mmc_project(A, W, t, max_proj, eps=0.01):
  """alternating projection onto {sum_S d^2 <= t} and the PSD cone until within 1% of the budget.
  Returns (A, satisfied, rounds, min_margin) - min_margin: how close any branch decision came to flipping."""
  wv = W.ravel()
  wn = np.linalg.norm(wv)
  w1, t1 = wv / wn, t / wn
  margin = float('inf')
  for it in range(max_proj):
    x0 = A.ravel()
    s = wv.dot(x0)
    margin = min(margin, abs(s - t) / max(abs(t), 1e-300))
    if s > t:
      A = (x0 + (t1 - w1.dot(x0)) * w1).reshape(A.shape)
    l, V = np.linalg.eigh((A + A.T) / 2)
    A = (V * np.maximum(0, l)).dot(V.T)
    err = (wv.dot(A.ravel()) - t) / t
    margin = min(margin, abs(err - eps))
    if err < eps:
      return A, True, it + 1, margin
  return A, False, max_proj, margin


def mmc_reference(A0, diffS, diffD, max_iter, max_proj, tol):
  """reference run of the documented projected-gradient scheme (Xing et al. 2002).  Returns the last kept
  iterate, the first projection, and the smallest branch margin seen."""
  W = diffS.T.dot(diffS)
  t = float((W * A0).sum()) / 100.0
  A = A0.copy()
  alpha = 0.1
  Mg = mmc_grad_projection(W, mmc_fD1(diffD, A))
  A_old = A.copy()
  margin = float('inf')
  first = None
  for cycle in range(max_iter):
    A, ok, rounds, mg = mmc_project(A, W, t, max_proj)
    margin = min(margin, mg)
    if cycle == 0:
      first = (A.copy(), ok, rounds)
    op, o = mmc_fD(diffD, A_old), mmc_fD(diffD, A)
    if cycle != 0:
      margin = min(margin, abs(o - op))
    if ok and (o > op or cycle == 0):
      alpha *= 1.05
      A_old = A.copy()
      Mg = mmc_grad_projection(mmc_fD1(diffD, A), W)
      A = A + alpha * Mg
    else:
      alpha /= 2
      A = A_old + alpha * Mg
    delta = np.linalg.norm(alpha * Mg) / np.linalg.norm(A_old)
    margin = min(margin, abs(delta - tol) / tol)
    if delta < tol:
      break
  return A_old, first, margin, t


# ----------------------------------------------------------------------------- SCML

def scml_dist_diff(T, basis):
  """per-triplet, per-basis difference of squared projected distances d_b(a,b) - d_b(a,c)."""
  out = np.zeros((len(T), len(basis)))
  for t, (a, b, c) in enumerate(T):
    for i, bv in enumerate(basis):
      out[t, i] = float(bv.dot(a - b)) ** 2 - float(bv.dot(a - c)) ** 2
  return out


def scml_reference(dist_diff, beta, gamma, batch_size, max_iter, output_iter, seed):
  """documented stochastic dual averaging (Shi et al. 2014) with AdaGrad scaling, slack 1e-3, negative
  trimming, evaluated at every output_iter.  Returns [(iter, objective, w)], for every checkpoint."""
  n, K = dist_diff.shape
  rs = np.random.RandomState(seed)
  batches = rs.randint(low=0, high=n, size=(max_iter, batch_size))
  w = np.zeros(K)
  avg = np.zeros(K)
  ada = np.zeros(K)
  delta = 0.001
  cps = []
  for it in range(max_iter):
    idx = batches[it]
    g = np.zeros(K)
    for j in idx:
      if 1 + dist_diff[j].dot(w) > 0:
        g += dist_diff[j]
    g /= batch_size
    avg = (it * avg + g) / (it + 1)
    ada = np.sqrt(ada ** 2 + g ** 2)
    w = -(it + 1) / (gamma * (delta + ada)) * np.minimum(avg + beta, 0)
    if (it + 1) % output_iter == 0:
      slack = 1 + dist_diff.dot(w)
      obj = beta * w.sum() + slack[slack > 0].sum() / n
      cps.append((it + 1, float(obj), w.copy()))
  return cps
