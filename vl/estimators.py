"""The 17 estimators: input kinds, option spaces (DESIGN 3.2), cheap configurations, fitting."""
import itertools
import json

import numpy as np

from .common import ml, call, quiet
from . import gen

ALL = ['Covariance', 'LFDA', 'LMNN', 'NCA', 'MLKR', 'RCA', 'RCA_Supervised', 'ITML',
       'ITML_Supervised', 'MMC', 'MMC_Supervised', 'SDML', 'SDML_Supervised', 'LSML',
       'LSML_Supervised', 'SCML', 'SCML_Supervised']

# what fit() takes
KIND = {'Covariance': 'X', 'LFDA': 'Xy', 'LMNN': 'Xy', 'NCA': 'Xy', 'MLKR': 'Xyreal', 'RCA': 'Xchunks',
        'RCA_Supervised': 'Xy', 'ITML': 'pairs', 'ITML_Supervised': 'Xy', 'MMC': 'pairs',
        'MMC_Supervised': 'Xy', 'SDML': 'pairs', 'SDML_Supervised': 'Xy', 'LSML': 'quads',
        'LSML_Supervised': 'Xy', 'SCML': 'triplets', 'SCML_Supervised': 'Xy'}
TUPLE_SIZE = {'pairs': 2, 'triplets': 3, 'quads': 4}
PAIRS = ['ITML', 'MMC', 'SDML']
TUPLE_LEARNERS = ['ITML', 'MMC', 'SDML', 'LSML', 'SCML']
SUPERVISED = ['ITML_Supervised', 'MMC_Supervised', 'SDML_Supervised', 'LSML_Supervised',
              'RCA_Supervised', 'SCML_Supervised']

# cheap iteration budgets (properties about convergence override these)
CHEAP = {
    'LMNN': dict(max_iter=12, learn_rate=1e-6, n_neighbors=2),
    'NCA': dict(max_iter=8),
    'MLKR': dict(max_iter=8),
    'ITML': dict(max_iter=15), 'ITML_Supervised': dict(max_iter=15, n_constraints=30),
    'MMC': dict(max_iter=8, max_proj=2000), 'MMC_Supervised': dict(max_iter=8, max_proj=2000, n_constraints=30),
    'SDML': dict(sparsity_param=0.01), 'SDML_Supervised': dict(sparsity_param=0.01, n_constraints=30),
    'LSML': dict(max_iter=10), 'LSML_Supervised': dict(max_iter=10, n_constraints=30),
    'SCML': dict(max_iter=60, output_iter=15, batch_size=4),
    'SCML_Supervised': dict(max_iter=60, output_iter=15, batch_size=4, k_genuine=2, k_impostor=3),
    'RCA_Supervised': dict(chunk_size=2),
}
SEEDED = ['LMNN', 'NCA', 'MLKR', 'RCA_Supervised', 'ITML', 'ITML_Supervised', 'MMC', 'MMC_Supervised',
          'SDML', 'SDML_Supervised', 'LSML', 'LSML_Supervised', 'SCML', 'SCML_Supervised']


def option_space(name, d, n_classes):
  """Documented option values (DESIGN 3.2) as {option: [values]}; 'array' is materialised later."""
  ks = [None] + list(range(1, d + 1))
  if name == 'Covariance':
    return {}
  if name in ('LMNN', 'NCA'):
    return dict(init=['auto', 'pca', 'identity', 'random', 'array', 'lda'], n_components=ks)
  if name == 'MLKR':
    return dict(init=['auto', 'pca', 'identity', 'random', 'array'], n_components=ks)
  if name == 'LFDA':
    return dict(embedding_type=['weighted', 'orthonormalized', 'plain'],
                k=[None] + list(range(1, d)) + [d, d + 3], n_components=ks)
  if name in ('RCA', 'RCA_Supervised'):
    return dict(n_components=ks)
  if name in ('ITML', 'ITML_Supervised', 'LSML', 'LSML_Supervised', 'SDML', 'SDML_Supervised'):
    return dict(prior=['identity', 'covariance', 'random', 'array', 'diag-array'])
  if name in ('MMC', 'MMC_Supervised'):
    return dict(init=['identity', 'covariance', 'random', 'array', 'diag-array'])
  if name == 'SCML':
    return dict(basis=['triplet_diffs', 'array'])
  if name == 'SCML_Supervised':
    return dict(basis=['triplet_diffs', 'lda', 'array'])
  raise KeyError(name)


def valid_options(name, opts, d, n_classes):
  k = opts.get('n_components')
  if opts.get('init') == 'lda':
    kk = d if k is None else k
    return kk <= min(d, n_classes - 1)
  return True


def enumerate_options(name, d, n_classes):
  space = option_space(name, d, n_classes)
  keys = sorted(space)
  out = []
  for vals in itertools.product(*[space[k] for k in keys]):
    o = dict(zip(keys, vals))
    if valid_options(name, o, d, n_classes):
      out.append(o)
  return out


def materialize(name, opts, data, aseed=0, extra=None):
  """options (JSON-able, with 'array' placeholders) -> constructor kwargs."""
  d = data.d
  p = dict(CHEAP.get(name, {}))
  p.update(opts)
  if extra:
    p.update(extra)
  if isinstance(p.get('init'), str) and p.get('init') == 'array':
    if name in ('MMC', 'MMC_Supervised'):
      p['init'] = gen.spd_from_seed(d, aseed)
    else:
      k = p.get('n_components') or d
      p['init'] = gen.transform_from_seed(k, d, aseed)
  if isinstance(p.get('prior'), str) and p.get('prior') == 'array':
    p['prior'] = gen.spd_from_seed(d, aseed)
  if isinstance(p.get('prior'), str) and p.get('prior') == 'diag-array':
    p['prior'] = np.diag(0.5 + np.random.RandomState(aseed).rand(d) * 3)
  if isinstance(p.get('init'), str) and p.get('init') == 'diag-array':
    p['init'] = np.diag(0.5 + np.random.RandomState(aseed).rand(d) * 3)
  if isinstance(p.get('basis'), str) and p.get('basis') == 'array':
    # a fifth of the user-supplied bases have fewer rows than the data has features (the documented
    # "reduces the dimension" case, where components_ is the weighted basis itself)
    K = p.pop('n_basis_array', None) or (max(1, d - 1 - aseed % 2) if aseed % 5 == 1 else d + 4)
    p['basis'] = gen.basis_from_seed(K, d, aseed)
  if aseed % 3 == 0:
    # memory layout is not part of an array's meaning: a third of the array-valued options are column-major
    for key in ('init', 'prior', 'basis'):
      if isinstance(p.get(key), np.ndarray):
        p[key] = np.asfortranarray(p[key])
  if name in ('SCML', 'SCML_Supervised') and 'n_basis' not in p and isinstance(p.get('basis', 'x'), str):
    b = p.get('basis', 'triplet_diffs' if name == 'SCML' else 'lda')
    p['n_basis'] = 3 * d + 2 if b == 'triplet_diffs' else 2 * d + 1
  if name == 'RCA_Supervised' and 'n_chunks' not in p:
    cs = p.get('chunk_size', 2)
    feasible = int(sum(m // cs for m in data.desc['sizes']))
    p['n_chunks'] = max(1, min(feasible, 2 * d + 2))
  if name in SEEDED and 'random_state' not in p:
    p['random_state'] = 7
  if name in ('SDML', 'SDML_Supervised') and 'balance_param' not in p:
    frac = p.pop('balance_frac', 0.5)
    p['balance_param'] = min(1.0, frac * sdml_max_balance(name, data, p))
  p.pop('balance_frac', None)
  return p


def build(name, params):
  return getattr(ml(), name)(**params)


def fit_args(name, data, preprocessor=False):
  kind = KIND[name]
  if kind == 'X':
    return (data.X,)
  if kind == 'Xy':
    return (data.X, data.y)
  if kind == 'Xyreal':
    return (data.X, data.yreal)
  if kind == 'Xchunks':
    return (data.X, data.chunks)
  if kind == 'pairs':
    return (data.pairs, data.ypairs)
  if kind == 'triplets':
    return (data.triplets,)
  if kind == 'quads':
    return (data.quads,)
  raise KeyError(kind)


def prior_inverse(prior, d, points, seed):
  """harness-side construction of the inverse prior (documented semantics, own code)."""
  if isinstance(prior, np.ndarray):
    return np.linalg.inv(prior)
  if prior == 'identity':
    return np.eye(d)
  if prior == 'covariance':
    X = np.unique(points.reshape(-1, d), axis=0)
    return np.atleast_2d(np.cov(X, rowvar=False))
  if prior == 'random':
    from sklearn.datasets import make_spd_matrix
    return np.linalg.inv(make_spd_matrix(d, random_state=seed))
  raise KeyError(prior)


def sdml_pairs(name, data, params):
  """the labelled pairs SDML will train on (for SDML_Supervised through the public helper)."""
  if name == 'SDML':
    return data.pairs, data.ypairs
  from .common import mlsub
  C = mlsub('constraints')
  n = params.get('n_constraints') or 20 * data.n_classes ** 2
  with quiet():
    pn = C.Constraints(data.y).positive_negative_pairs(n, random_state=params.get('random_state'))
    return C.wrap_pairs(data.X, pn)


def sdml_max_balance(name, data, params):
  """sup of balance_param for which prior^-1 + b * sum_i y_i v_i v_i^T is positive definite."""
  P, yy = sdml_pairs(name, data, params)
  diff = P[:, 0] - P[:, 1]
  Lm = (diff.T * yy).dot(diff)
  Pinv = prior_inverse(params.get('prior', 'identity'), data.d, P, params.get('random_state'))
  w, V = np.linalg.eigh((Pinv + Pinv.T) / 2)
  if w.min() <= 0:
    return 0.0
  Wm = (V / np.sqrt(w)).dot(V.T)
  mu = np.linalg.eigvalsh(Wm.dot(Lm).dot(Wm))
  return float(-1.0 / mu.min()) if mu.min() < 0 else float('inf')


_FIT_CACHE = {}
KF_ITML = 'known-finding KF1: ITML NonPSDError when a projection must move a distance by a factor > 1e6 (large-scale data / 1e-9 default bound)'


def itml_largescale(name, desc, params):
  p = params.get('prior', 'identity')
  return name in ('ITML', 'ITML_Supervised') and desc.get('logscale', 0) >= 1 and \
      not (isinstance(p, str) and p == 'covariance')


def itml_kappa(name, args, params, kw):
  """largest factor by which a Bregman projection must move a distance under the prior (KF1 predicate);
  evaluated only after a NonPSDError, with the harness' own prior / default-bounds construction."""
  try:
    if name == 'ITML':
      P, yy = np.asarray(args[0]), np.asarray(args[1])
      prep = params.get('preprocessor')
      if callable(prep):
        prep = getattr(prep, 'P', None)            # the harness' counting callable keeps its pool in .P
      if P.ndim == 2 and prep is not None:
        P = np.asarray(prep, dtype=float)[P.astype(np.int64)]          # index pairs through an array preprocessor
      P = np.asarray(P, dtype=float)
      if P.ndim != 3:
        return 1.0
    else:
      from .common import mlsub
      C = mlsub('constraints')
      X, y = np.asarray(args[0], dtype=float), np.asarray(args[1])
      n = params.get('n_constraints') or 20 * len(np.unique(y)) ** 2
      with quiet():
        pn = C.Constraints(y).positive_negative_pairs(n, random_state=params.get('random_state'))
        P, yy = C.wrap_pairs(X, pn)
    d = P.shape[2]
    M0 = np.linalg.inv(prior_inverse(params.get('prior', 'identity'), d, P, params.get('random_state')))
    V = P[:, 0] - P[:, 1]
    p0 = np.einsum('ij,jk,ik->i', V, M0, V)
    b = (kw or {}).get('bounds')
    if b is None:
      U = np.unique(P.reshape(-1, d), axis=0)
      Dm = np.sqrt(((U[:, None, :] - U[None, :, :]) ** 2).sum(-1))
      b = np.percentile(Dm, (5, 95))
    b = np.where(np.asarray(b, dtype=float) == 0, 1e-9, b)
    xi0 = np.where(yy == 1, b[0], b[1])
    return float(max(1.0, np.where(yy == 1, p0 / xi0, xi0 / np.maximum(p0, 1e-300)).max()))
  except Exception:
    return 1.0


def lda_rank_short(X, y, k):
  """discriminating predicate of known finding KF5: scikit-learn's LinearDiscriminantAnalysis itself returns fewer
  than k discriminant directions for (X, y) (a singular value of the class-mean scatter below its 1e-4 relative
  tolerance), so `scalings_.T[:k]` has fewer than k rows.  Decided with scikit-learn alone, not with metric-learn."""
  from sklearn.discriminant_analysis import LinearDiscriminantAnalysis
  try:
    with quiet():
      lda = LinearDiscriminantAnalysis(n_components=k).fit(np.asarray(X, dtype=float), np.asarray(y))
    return lda.scalings_.shape[1] < k
  except Exception:
    return False


def fit_call(sig, name, est, args, desc, params, expect=(), kw=None, report_kf=False):
  """est.fit(*args) through `call`; the recorded known finding KF-ITML (see DESIGN section 5) is
  turned into a counted Discard unless the calling property owns it (report_kf)."""
  from .common import Violation, Discard
  try:
    return call('%s/%s' % (sig, name), est.fit, *args, expect=expect, **(kw or {}))
  except Violation as v:
    collapse = v.sig.endswith('raises-NonPSDError') or \
        (v.sig.endswith('raises-ValueError') and 'should be symmetric' in v.msg)     # NaN after the collapse
    if collapse and name in ('ITML', 'ITML_Supervised') and \
        (itml_largescale(name, desc, params) or itml_kappa(name, args, params, kw) > 1e6):
      if report_kf:
        raise Violation(v.sig.replace('raises-ValueError', 'raises-NonPSDError') + '/largescale', v.msg)
      raise Discard(KF_ITML)
    raise




def fit(name, opts, desc, aseed=0, extra=None, sig='fit', expect=(), cache=True):
  """Fit estimator `name` with options on the dataset described by desc.  Returns (est, data,
  params).  Cached per process by the JSON of the arguments."""
  key = json.dumps([name, opts, desc, aseed, extra], sort_keys=True, default=repr)
  if cache and key in _FIT_CACHE:
    return _FIT_CACHE[key]
  data = gen.Data(desc)
  params = materialize(name, opts, data, aseed, extra)
  est = build(name, params)
  res = fit_call(sig, name, est, fit_args(name, data), desc, params, expect=expect)
  out = (est if not isinstance(res, Exception) else res, data, params)
  if cache:
    if len(_FIT_CACHE) > 64:
      _FIT_CACHE.clear()
    _FIT_CACHE[key] = out
  return out


# ----------------------------------------------------------------------------- model strategy
from hypothesis import strategies as _st  # noqa: E402


@_st.composite
def model_desc(draw, name, dmin=2, dmax=6, grid=False, fixed_opts=None, extra=None, scales=True):
  """A fitted-model descriptor: {est, desc, opts, aseed, extra} (all JSON-able)."""
  desc = draw(gen.dataset_desc(dmin=dmin, dmax=dmax, grid=grid, scales=scales))
  d, nc = desc['d'], len(desc['sizes'])
  space = option_space(name, d, nc)
  opts = {}
  for k in sorted(space):
    opts[k] = draw(_st.sampled_from(space[k]))
  if fixed_opts:
    opts.update(fixed_opts)
  if not valid_options(name, opts, d, nc):
    opts['init'] = 'auto'
  return dict(est=name, desc=desc, opts=opts, aseed=draw(_st.integers(0, 999)), extra=extra or {})


def fit_model(m, sig='fit', expect=(), cache=True):
  return fit(m['est'], m['opts'], m['desc'], m['aseed'], m.get('extra') or None, sig=sig,
             expect=expect, cache=cache)
