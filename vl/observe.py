"""Hook-free observation of internals: rebinding module-level names / wrapping methods of the module under
test for the duration of one call.  If an internal name disappears the check fails as a harness error."""
import contextlib
import sys

from .common import mlsub, HarnessError


@contextlib.contextmanager
def record_minimize(modname):
  """Record the arguments handed to scipy.optimize.minimize by metric_learn.<modname> and its result."""
  mod = mlsub(modname)
  if not hasattr(mod, 'minimize'):
    raise HarnessError('metric_learn.%s.minimize not found' % modname)
  real = mod.minimize
  rec = {}

  def wrapper(*args, **kw):
    names = ['fun', 'x0', 'args']
    call = dict(kw)
    for n, a in zip(names, args):
      call[n] = a
    rec['fun'] = call['fun']
    rec['x0'] = call['x0'].copy()
    rec['args'] = call.get('args', ())
    rec['kw'] = {k: v for k, v in call.items() if k not in ('fun', 'x0', 'args')}
    res = real(*args, **kw)
    rec['result'] = res
    return res
  mod.minimize = wrapper
  try:
    yield rec
  finally:
    mod.minimize = real


@contextlib.contextmanager
def record_method(modname, clsname, method):
  """Record (args, kwargs, result) of every call of metric_learn.<modname>.<clsname>.<method>."""
  mod = mlsub(modname)
  cls = getattr(mod, clsname, None)
  if cls is None or not hasattr(cls, method):
    raise HarnessError('metric_learn.%s.%s.%s not found' % (modname, clsname, method))
  real = getattr(cls, method)
  calls = []

  def wrapper(self, *args, **kw):
    import numpy as np
    saved = [a.copy() if isinstance(a, np.ndarray) else a for a in args]
    res = real(self, *args, **kw)
    calls.append((saved, kw, res))
    return res
  setattr(cls, method, wrapper)
  try:
    yield calls
  finally:
    setattr(cls, method, real)


@contextlib.contextmanager
def frame_locals_at_return(modname, clsname, funcname, names):
  """Read selected local variables of <clsname>.<funcname> at its return event (sys.setprofile)."""
  mod = mlsub(modname)
  func = getattr(getattr(mod, clsname), funcname)
  code = func.__code__
  out = {}

  def prof(frame, event, arg):
    if event == 'return' and frame.f_code is code:
      for n in names:
        if n in frame.f_locals:
          v = frame.f_locals[n]
          out[n] = v.copy() if hasattr(v, 'copy') else v
  old = sys.getprofile()
  sys.setprofile(prof)
  try:
    yield out
  finally:
    sys.setprofile(old)
