"""Runner: ./check <ID> <quick|thorough> [--replay FILE]

exit 0  property held on everything explored (KNOWN-FINDING lines may be printed)
exit 1  VIOLATION property=<id> replay=<path>
exit 2  HARNESS-ERROR (never a violation)
"""
import glob
import importlib
import json
import multiprocessing as mp
import os
import sys
import time
import traceback
import warnings

import numpy as np
from collections import Counter

from .common import VERIF, REPO, Stats, Violation, Discard, derive_seed, digest, jsonable

NPROC = int(os.environ.get('VERIF_NPROC', '16'))


def load_known(prop):
  path = os.path.join(VERIF, 'known_findings.json')
  if not os.path.exists(path):
    return []
  data = json.load(open(path))
  return [k for k in data.get('known', []) if k.get('property') == prop]


def _worker(arg):
  prop, shard, tier, seed, known_sigs = arg
  t0 = time.time()
  try:
    warnings.simplefilter('ignore')   # recorded locally (common.recorded_warnings) where they matter
    np.seterr(all='ignore')
    mod = importlib.import_module('vl.props.' + prop.lower())
    stats = Stats()
    sseed = derive_seed(prop, shard.get('name'), seed)
    failures = mod.run_shard(shard, tier, sseed, stats, known_sigs) or []
    return dict(shard=shard.get('name'), stats=stats.to_dict(), failures=failures,
                wall=time.time() - t0, error=None)
  except BaseException:  # harness problem: reported as exit 2, never as a violation
    return dict(shard=shard.get('name'), stats=None, failures=[], wall=time.time() - t0,
                error=traceback.format_exc())


def replay_file(mod, prop, path):
  warnings.simplefilter('ignore')
  np.seterr(all='ignore')
  entry = json.load(open(path))
  fn = mod.CHECKS[entry['check']]
  try:
    fn(entry['case'], Stats())
  except Discard as d:
    return ('discard', d.reason)
  except Violation as v:
    return ('violation', v.sig + ': ' + v.msg)
  return ('pass', '')


def write_replay(prop, failure):
  d = os.path.join(VERIF, 'replays', prop)
  os.makedirs(d, exist_ok=True)
  body = dict(property=prop, check=failure['check'], sig=failure['sig'], msg=failure['msg'],
              case=failure['case'])
  path = os.path.join(d, digest(body) + '.json')
  with open(path, 'w') as f:
    json.dump(body, f, indent=1)
  return os.path.relpath(path, VERIF)


def main(argv):
  if len(argv) < 2:
    print(__doc__)
    return 2
  prop, tier = argv[0].upper(), argv[1]
  t0 = time.time()
  seed = int(os.environ.get('VERIF_SEED', '0'))
  try:
    mod = importlib.import_module('vl.props.' + prop.lower())
  except Exception:
    print('HARNESS-ERROR property=%s cannot import check module' % prop)
    traceback.print_exc()
    return 2

  if '--replay' in argv:
    path = argv[argv.index('--replay') + 1]
    try:
      res, what = replay_file(mod, prop, path)
    except Exception:
      print('HARNESS-ERROR property=%s replay crashed' % prop)
      traceback.print_exc()
      return 2
    if res == 'violation':
      print('replay: %s' % what)
      print('VIOLATION property=%s replay=%s' % (prop, path))
      return 1
    print('replay %s: %s %s' % (path, res, what))
    return 0

  if tier not in ('quick', 'thorough'):
    print('tier must be quick or thorough')
    return 2
  known = load_known(prop)
  known_sigs = [k['sig'] for k in known]
  violations = []   # (sig, msg, replay path)
  errors = []

  # 1. committed reproductions of earlier findings are replayed first
  regress = sorted(glob.glob(os.path.join(VERIF, 'regress', prop, '*.json')))
  n_regress = 0
  for path in regress:
    try:
      res, what = replay_file(mod, prop, path)
    except Exception:
      errors.append('regress %s:\n%s' % (path, traceback.format_exc()))
      continue
    n_regress += 1
    if res == 'violation':
      sig = what.split(':')[0]
      if sig in known_sigs:
        continue
      violations.append((sig, what, os.path.relpath(path, VERIF)))

  # 2. generated search, sharded
  try:
    shards = mod.shards(tier)
  except Exception:
    print('HARNESS-ERROR property=%s shards() failed' % prop)
    traceback.print_exc()
    return 2
  args = [(prop, s, tier, seed, known_sigs) for s in shards]
  results = []
  if NPROC <= 1 or len(args) == 1:
    results = [_worker(a) for a in args]
  else:
    with mp.get_context('fork').Pool(min(NPROC, len(args))) as pool:
      for r in pool.imap_unordered(_worker, args, chunksize=1):
        results.append(r)
  results.sort(key=lambda r: str(r['shard']))

  total = Stats()
  nontrivial = set()
  known_hits = Counter()
  shard_info = []
  for r in results:
    if r['error']:
      errors.append('shard %s:\n%s' % (r['shard'], r['error']))
      continue
    s = r['stats']
    total.evaluations += s['evaluations']
    nontrivial.update(s['nontrivial'])
    total.classes.update(s['classes'])
    total.discards.update(s['discards'])
    total.inconclusive.update(s['inconclusive'])
    total.notes.update(s['notes'])
    known_hits.update(s['known'])
    for smp in s['samples']:
      if len(total.samples) < 12:
        total.samples.append(smp)
    for k, v in s['extra'].items():
      total.extra.setdefault(k, []).append(v)
    shard_info.append(dict(name=r['shard'], evaluations=s['evaluations'],
                           nontrivial=len(s['nontrivial']), wall_s=round(r['wall'], 2)))
    for f in r['failures']:
      violations.append((f['sig'], f['msg'], write_replay(prop, f)))

  wall = time.time() - t0
  ev = dict(
      property_id=prop, tier=tier, seed=seed, level='exploration',
      coverage=dict(
          evaluations=total.evaluations, distinct_nontrivial=len(nontrivial),
          rule=getattr(mod, 'RULE', ''), samples=total.samples,
          classes=dict(sorted(total.classes.items())),
          discards=dict(sorted(total.discards.items())),
          inconclusive=dict(sorted(total.inconclusive.items())),
          notes=dict(sorted(total.notes.items())),
          known_finding_hits=dict(known_hits), regress_replayed=n_regress,
          shards=shard_info, exhaustive=bool(getattr(mod, 'EXHAUSTIVE', False)),
          extra=jsonable(total.extra), repo=REPO),
      assumptions=list(getattr(mod, 'ASSUMPTIONS', [])),
      wall_s=round(wall, 2), violations=len(violations))
  # evidence/ describes /repo itself; runs against a scratch copy (mutants, old commits) go elsewhere
  evdir = 'evidence' if os.path.abspath(REPO) == '/repo' else 'evidence_scratch'
  os.makedirs(os.path.join(VERIF, evdir), exist_ok=True)
  with open(os.path.join(VERIF, evdir, prop + '.json'), 'w') as f:
    json.dump(ev, f, indent=1, sort_keys=True)

  print('%s %s seed=%d: %d cases, %d distinct non-trivial, %d shards, %.1fs' % (
      prop, tier, seed, total.evaluations, len(nontrivial), len(shard_info), wall))
  if total.discards:
    print('  discards: %s' % dict(total.discards))
  if total.inconclusive:
    print('  inconclusive: %s' % dict(total.inconclusive))
  for k in known:
    if known_hits.get(k['sig']) or any(True for _ in ()):
      pass
    print('KNOWN-FINDING: property=%s %s [%s] (hits this run: %d)' % (
        prop, k.get('what', ''), k['sig'], known_hits.get(k['sig'], 0)))
  if errors:
    for e in errors:
      print('HARNESS-ERROR property=%s\n%s' % (prop, e))
    return 2
  if violations:
    seen = set()
    for sig, msg, path in violations:
      if sig not in seen:
        seen.add(sig)
        print('  %s' % (msg if msg.startswith(sig) else sig + ': ' + msg)[:600])
        print('VIOLATION property=%s replay=%s' % (prop, path))
    return 1
  if total.evaluations == 0 or len(nontrivial) < 2:
    print('HARNESS-ERROR property=%s vacuous run (no non-trivial cases)' % prop)
    return 2
  return 0


if __name__ == '__main__':
  sys.exit(main(sys.argv[1:]))
