"""Coverage-guided fuzz target (atheris / libFuzzer) for the array-like validation front end (C06, thorough tier).

bytes -> nested Python object (lists of lists of float / int / None / str / nan / inf, depth <= 4, ragged allowed)
-> passed to one query method of a fitted estimator.  The oracle classifies the decoded object with an
independent predicate and demands: well-formed -> same result as the float64 C array; malformed -> ValueError.

Run as a subprocess (libFuzzer never returns):  python -m vl.fuzz.c06_atheris OUT.json RUNS SEED [CORPUS_DIR]
Exit codes: 0 finished, 77 oracle violation (replay case written into OUT.json), other = harness problem."""
import json
import os
import sys
import warnings

import numpy as np

TARGETS = [('Covariance', 'transform', 'points', None), ('NCA', 'transform', 'points', None),
           ('ITML', 'pair_distance', 'tuples', 2), ('MMC', 'predict', 'tuples', 2),
           ('SCML', 'decision_function', 'tuples', 3), ('LSML', 'predict', 'tuples', 4)]
D = 3
_EST = {}


def fitted(name):
  if name not in _EST:
    from .. import estimators as E, gen
    from ..props.c06 import DESC0
    data = gen.Data(DESC0)
    params = E.materialize(name, {}, data, 0)
    est = E.build(name, params)
    est.fit(*E.fit_args(name, data))
    _EST[name] = est
  return _EST[name]


def decode(fdp, depth=0):
  """FuzzedDataProvider -> nested object"""
  if depth >= 4:
    kind = fdp.ConsumeIntInRange(0, 5)
  else:
    kind = fdp.ConsumeIntInRange(0, 9)
  if kind >= 6:
    n = fdp.ConsumeIntInRange(0, 4)
    return [decode(fdp, depth + 1) for _ in range(n)]
  if kind == 0:
    return float(fdp.ConsumeIntInRange(-5, 5))
  if kind == 1:
    return fdp.ConsumeIntInRange(-100, 100)
  if kind == 2:
    v = fdp.ConsumeRegularFloat()
    return v if abs(v) < 1e100 else 1.5
  if kind == 3:
    return [float('nan'), float('inf'), float('-inf')][fdp.ConsumeIntInRange(0, 2)]
  if kind == 4:
    return None
  return ['a', 'x1', '1.5', ''][fdp.ConsumeIntInRange(0, 3)]


def scalar(fdp, clean):
  k = fdp.ConsumeIntInRange(0, 19)
  if clean or k < 12:
    return [float(fdp.ConsumeIntInRange(-5, 5)), fdp.ConsumeIntInRange(-100, 100), fdp.ConsumeIntInRange(-8, 8) / 4.0][k % 3]
  if k < 14:
    v = fdp.ConsumeRegularFloat()
    return v if abs(v) < 1e100 else 1.5
  if k < 16:
    return [float('nan'), float('inf'), float('-inf')][k % 3]
  if k < 17:
    return None
  return ['a', 'x1', '1.5', ''][fdp.ConsumeIntInRange(0, 3)]


def decode_structured(fdp, kind, ts):
  """a nearly well-formed input: documented shape with drawn deviations in size, entries and nesting"""
  dev = fdp.ConsumeIntInRange(0, 9)
  n = fdp.ConsumeIntInRange(1, 4) if dev != 0 else 0
  d = D if dev not in (1, 2) else [D + 1, D - 1, 1, 2 * D][fdp.ConsumeIntInRange(0, 3)]
  t = ts if dev != 3 else fdp.ConsumeIntInRange(1, 5)
  clean = dev >= 5
  if kind == 'points':
    obj = [[scalar(fdp, clean) for _ in range(d)] for _ in range(n)]
  else:
    obj = [[[scalar(fdp, clean) for _ in range(d)] for _ in range(t)] for _ in range(n)]
  if dev == 4 and n:
    m = fdp.ConsumeIntInRange(0, 3)
    if m == 0:
      obj = [obj]
    elif m == 1:
      obj = obj[0]
    elif m == 2:
      (obj[0] if kind == 'points' else obj[0][0]).append(1.0)      # ragged
    else:
      obj[fdp.ConsumeIntInRange(0, n - 1)] = scalar(fdp, False)
  return obj


def classify(obj, kind, ts):
  """independent predicate: 'ok' (documented form), 'bad' (must raise ValueError) or 'either' (numeric strings)."""
  has_str = [False]
  has_none = [False]

  def shape(o):
    if isinstance(o, list):
      subs = [shape(x) for x in o]
      if any(s is None for s in subs):
        return None
      if len(set(subs)) > 1:
        return None          # ragged
      return (len(o),) + (subs[0] if subs else ())
    if isinstance(o, str):
      has_str[0] = True
    if o is None:
      has_none[0] = True
    return ()
  shp = shape(obj)
  if shp is None or has_none[0]:
    return 'bad'
  want_ndim = 2 if kind == 'points' else 3
  if len(shp) != want_ndim or 0 in shp:
    return 'bad'
  if kind == 'tuples' and shp[1] != ts:
    return 'bad'
  if shp[-1] != D:
    return 'bad'
  if has_str[0]:
    flat = np.array(obj, dtype=object).ravel()
    for v in flat:
      if isinstance(v, str):
        try:
          float(v)
        except ValueError:
          return 'bad'
    return 'either'
  arr = np.asarray(obj, dtype=float)
  if not np.isfinite(arr).all():
    return 'bad'
  return 'ok'


def check_obj(target_index, obj):
  """pure oracle, also used for replay.  Raises vl.common.Violation."""
  from ..common import Violation
  name, meth, kind, ts = TARGETS[target_index % len(TARGETS)]
  est = fitted(name)
  cls = classify(obj, kind, ts)
  try:
    with warnings.catch_warnings():
      warnings.simplefilter('ignore')
      out = getattr(est, meth)(obj)
    raised = None
  except ValueError as e:
    out, raised = None, e
  except Exception as e:        # noqa
    raise Violation('C06/fuzz/%s.%s/raises-%s' % (name, meth, type(e).__name__), '%s on %r' % (e, obj))
  if cls == 'bad' and raised is None:
    raise Violation('C06/fuzz/%s.%s/accepted-malformed' % (name, meth), 'returned %r for %r' % (out, obj))
  if cls == 'ok' and raised is not None:
    raise Violation('C06/fuzz/%s.%s/rejected-wellformed' % (name, meth), '%r raised %r' % (obj, raised))
  if raised is None and cls in ('ok', 'either'):
    ref = getattr(est, meth)(np.asarray(np.array(obj, dtype=object).astype(float), dtype=float))
    if np.asarray(out).shape != np.asarray(ref).shape or not np.allclose(out, ref, rtol=1e-9, atol=1e-12, equal_nan=False):
      raise Violation('C06/fuzz/%s.%s/differs-from-float64' % (name, meth), '%r vs %r for %r' % (out, ref, obj))
  return cls


def main(argv):
  out_path, runs, seed = argv[0], int(argv[1]), int(argv[2])
  corpus = argv[3] if len(argv) > 3 else None
  import atheris
  with atheris.instrument_imports(include=['metric_learn']):
    from ..common import ml
    ml()
  from ..common import Violation, jsonable
  warnings.simplefilter('ignore')
  np.seterr(all='ignore')
  for t in TARGETS:
    fitted(t[0])
  stats = dict(execs=0, classes={}, targets={}, samples=[], violation=None)

  def flush():
    with open(out_path, 'w') as f:
      json.dump(stats, f)

  def one(data):
    fdp = atheris.FuzzedDataProvider(data)
    ti = fdp.ConsumeIntInRange(0, len(TARGETS) - 1)
    if fdp.ConsumeIntInRange(0, 9) < 7:
      obj = decode_structured(fdp, TARGETS[ti][2], TARGETS[ti][3])
    else:
      obj = decode(fdp)
    if not isinstance(obj, list):
      obj = [obj]
    stats['execs'] += 1
    try:
      cls = check_obj(ti, obj)
    except Violation as v:
      stats['violation'] = dict(sig=v.sig, msg=v.msg[:500], case=dict(target=ti, obj=jsonable(obj)))
      flush()
      os._exit(77)
    stats['classes'][cls] = stats['classes'].get(cls, 0) + 1
    key = '%s.%s' % TARGETS[ti][:2]
    stats['targets'][key] = stats['targets'].get(key, 0) + 1
    if cls != 'bad' and len(stats['samples']) < 6:
      stats['samples'].append(dict(target=ti, obj=jsonable(obj), cls=cls))
    if stats['execs'] % 2000 == 0:
      flush()
  flush()
  args = [sys.argv[0], '-runs=%d' % runs, '-seed=%d' % (seed or 1), '-max_len=256', '-print_final_stats=0', '-verbosity=0']
  if corpus:
    args.append(corpus)
  atheris.Setup(args, one)
  try:
    atheris.Fuzz()
  finally:
    flush()


if __name__ == '__main__':
  main(sys.argv[1:])
