#!/bin/bash
# Offline setup: make sure hypothesis is importable by /venv/bin/python (wheelhouse only).
cd "$(dirname "$0")" || exit 1
export PIP_NO_INDEX=1
if ! /venv/bin/python -c "import hypothesis" 2>/dev/null; then
  /venv/bin/pip install --no-index --find-links /opt/veriftools/wheels hypothesis || exit 1
fi
if ! PYTHONPATH="$PWD/.deps" /venv/bin/python -c "import atheris" 2>/dev/null; then
  /venv/bin/pip install --no-index --find-links /opt/veriftools/wheels --target "$PWD/.deps" atheris \
    >/dev/null 2>&1 || echo "atheris not installable for /venv python: C06 fuzz tier will be skipped"
fi
/venv/bin/python -c "import hypothesis, numpy, scipy, sklearn; print('setup ok: hypothesis', hypothesis.__version__)"
